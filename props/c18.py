"""
C18 -- HTTP integrations relay the dispatcher's verdict unchanged (partially applicable).

Unit level, no sockets: werkzeug WSGI app driven through run_wsgi_app, Flask through its test client, aiohttp through
Application._rpc_handle on a mocked request under a real event loop.
"""
from __future__ import annotations

import itertools as it
import json

from vlib.explore import Violation
from vlib.server import run_coro

PROP = 'C18'
MANIFEST = dict(
    text="Bounded symbolic check of the three integrations' request gate and reply construction: integration x base media type {the 3 documented types, near-misses (application/jsons, application/x+json, text/json), unrelated, header missing} "
         "x parameter suffix x body kind {call ok, call failing, notification, batch, invalid JSON; bytes that are not UTF-8 with the media types that are refused anyway} x status-by-error function (default / by error code, the chosen statuses picked by symbolic bits); several endpoint prefixes on one Flask / aiohttp application (each request must be served by its own endpoint's dispatcher); sequences of 2..3 requests served by ONE application object (each gets a reply of its own). "
         "For werkzeug the Content-Type is `base + symbolic suffix (len <= 1 quick / <= 2 thorough)`, so the solver looks for ANY such characters that make a wrong media type pass or a right one fail; for Flask and aiohttp a symbolic header cannot cross their request objects "
         "(LocalProxy / C multidict), there the suffix comes from a concrete list. Oracle: media type (part before ';', trimmed, case-insensitive) documented => body == the dispatcher's text, JSON content type, status == status_by_error(codes) (200 default), empty 200 when the dispatcher returns nothing; "
         "otherwise 415 AS A RESPONSE and no method executed.",
    ref='5 C18',
    note="NOT covered: non-UTF-8 bodies with a DOCUMENTED media type (the statement does not say what the reply is), symbolic headers through Flask / aiohttp, URL routing of the frameworks, sockets. Bodies are concrete JSON texts (the frameworks need real bytes); the dispatcher's own behaviour on symbolic documents is C01-C03. "
         "aiohttp / Flask signal 415 by raising their HTTPException, which those frameworks turn into a response (accepted); a raw WSGI app has no such layer, so for werkzeug the exception must not escape the WSGI callable.",
)
BOUNDS = {
    'quick': {'media types': '8 bases x 4 concrete suffixes (+ symbolic suffix len<=1 after 3 bases for werkzeug)', 'bodies': '5 kinds', 'status functions': 'default, by-code'},
    'thorough': {'media types': 'as quick, symbolic suffix len <= 2 after 7 bases for werkzeug', 'bodies': '5 kinds', 'status functions': 'as quick'},
}
STUBS = ['S5', 'S13', 'framework set-up (app objects, environ building) executed untraced']
OUTSIDE = ['non-UTF-8 bodies', 'symbolic header values through Flask / aiohttp', 'routing', 'real sockets']
ASSUMPTIONS = ['RFC 7231 media type = part before the first ";" with surrounding whitespace removed, compared case-insensitively']
BUDGET = {'quick': 60.0, 'thorough': 200.0}

DOCUMENTED = ('application/json', 'application/json-rpc', 'application/jsonrequest')
BASES = DOCUMENTED + ('application/jsons', 'application/x+json', 'text/json', 'text/plain', None)
SUFFIXES = ('', '; charset=utf-8', ';charset=UTF-8', ' ; q=1')
BODIES = ('ok', 'fail', 'notif', 'batch', 'garbage')


def setup():
    import warnings
    from pjrpc.common import exceptions as ex
    ex.DeserializationError.__str__ = lambda self: 'deserialization error'
    ex.IdentityError.__str__ = lambda self: 'identity error'
    warnings.simplefilter('ignore')


def obligations(tier):
    obs = []
    for integ in ('werkzeug', 'flask', 'aiohttp'):
        for base, suffix, body in it.product(BASES, SUFFIXES, BODIES):
            if base is None and suffix:
                continue
            if body not in ('ok', 'fail') and suffix not in ('', '; charset=utf-8'):
                continue
            for status in (('default',) if integ == 'werkzeug' else ('default', 'bycode')):
                if status == 'bycode' and suffix not in ('', '; charset=utf-8'):
                    continue
                obs.append({'h': 'http', 'integ': integ, 'base': base, 'suffix': suffix, 'body': body, 'status': status})
        for base in BASES:
            if base not in DOCUMENTED:
                # the refusal does not depend on the body: an undecodable body with a media type that is refused anyway
                obs.append({'h': 'http', 'integ': integ, 'base': base, 'suffix': '', 'body': 'nonutf8', 'status': 'default'})
    for integ, target, nep in it.product(('flask', 'aiohttp'), (0, 1, 2), (2, 3)):
        if target >= nep:
            continue
        for body in ('ok', 'notif'):
            obs.append({'h': 'endpoints', 'integ': integ, 'target': target, 'nep': nep, 'body': body})
        if integ == 'flask':
            obs.append({'h': 'endpoints', 'integ': integ, 'target': target, 'nep': nep, 'body': 'ok', 'slash': 1})
    for integ, seq in it.product(('flask', 'aiohttp'), (('notif', 'notif'), ('notif', 'ok', 'notif'), ('ok', 'ok'), ('notif', 'notif', 'notif'), ('fail', 'notif'))):
        obs.append({'h': 'sequence', 'integ': integ, 'seq': list(seq)})
    n = 1 if tier == 'quick' else 2
    for base, body in it.product(BASES[:-1], ('ok', 'garbage')):
        if tier == 'quick' and (body != 'ok' or base not in ('application/json', 'application/json-rpc', 'application/jsons')):
            continue
        obs.append({'h': 'http', 'integ': 'werkzeug', 'base': base, 'suffix': 'SYM', 'n': n, 'body': body, 'status': 'default',
                    '_weight': 50, '_budget': 120.0})
    return obs


def finding_key(ob, label, model):
    return f"http/{ob['integ']}/{label}"


def make(ob):
    return globals()['h_' + ob['h']](ob)


# ---------------------------------------------------------------------------------------------------
def _methods(log):
    import pjrpc

    def echo(x):
        log.append(['echo', x])
        return [x]

    def fail():
        log.append(['fail'])
        raise pjrpc.exc.JsonRpcError(code=2000, message='failed')

    return echo, fail


def _acoro(fn):
    import functools
    import inspect

    @functools.wraps(fn)
    async def co(*a, **k):
        return fn(*a, **k)
    co.__signature__ = inspect.signature(fn)
    return co


BODY_TEXT = {
    'ok': '{"jsonrpc": "2.0", "id": 7, "method": "echo", "params": [5]}',
    'fail': '{"jsonrpc": "2.0", "id": 8, "method": "fail"}',
    'notif': '{"jsonrpc": "2.0", "method": "echo", "params": [5]}',
    'batch': '[{"jsonrpc": "2.0", "id": 1, "method": "echo", "params": [5]}, {"jsonrpc": "2.0", "id": 2, "method": "fail"}]',
    'garbage': '{"jsonrpc": ',
    'nonutf8': b'\xff\xfe{"jsonrpc"',       # not decodable as UTF-8: only sent with media types that must be refused anyway
}
WANT_CODES = {'ok': (0,), 'fail': (2000,), 'notif': None, 'batch': (0, 2000), 'garbage': (-32700,)}
WANT_RUNS = {'ok': 1, 'fail': 1, 'notif': 1, 'batch': 2, 'garbage': 0}


def _bytes(body):
    return body if isinstance(body, bytes) else body.encode()


def _media_type(header):
    if header is None:
        return None
    return header.split(';')[0].strip().lower()


def h_http(ob):
    def run(env):
        import pjrpc.server
        integ = ob['integ']
        log = []
        echo, fail = _methods(log)
        if ob['status'] == 'bycode':
            s_err = 400 if env.bool('st_err_400') else 503
            s_ok = 200 if env.bool('st_ok_200') else 202

            def status_by_error(codes):
                # depends on the WHOLE verdict: length, successes (0 entries) and failures
                if len(codes) == 0:
                    return 500
                if any(c == 0 for c in codes) and any(c != 0 for c in codes):
                    return 207
                return s_err if codes[0] != 0 else s_ok
        else:
            status_by_error = None
        # content type
        if ob['suffix'] == 'SYM':
            suffix = env.str('ct_suffix', ob['n'])
        else:
            suffix = ob['suffix']
        header = None if ob['base'] is None else ob['base'] + suffix
        body = BODY_TEXT[ob['body']]
        # reference dispatcher (same methods) gives the text the integration must relay
        ref_log = []
        r_echo, r_fail = _methods(ref_log)
        ref = pjrpc.server.Dispatcher()
        ref.add(r_echo, name='echo')
        ref.add(r_fail, name='fail')
        ref_out = None if isinstance(body, bytes) else ref.dispatch(body)
        try:
            if integ == 'werkzeug':
                status, ctype, text = _werkzeug(env, header, body, echo, fail)
            elif integ == 'flask':
                status, ctype, text = _flask(env, header, body, echo, fail, status_by_error)
            else:
                status, ctype, text = _aiohttp(env, header, body, echo, fail, status_by_error)
        except Violation:
            raise
        except Exception as e:
            raise Violation('raised-out-of-the-integration:' + type(e).__name__, (header, ob['body']))
        env.reached()
        mt = _media_type(header)
        allowed = mt is not None and any(mt == d for d in DOCUMENTED)
        if not allowed:
            if status != 415:
                raise Violation('undocumented-media-type-not-refused-with-415', (header, status))
            if log:
                raise Violation('method-executed-on-refused-request', (header, log))
            return ['415']
        if status == 415:
            raise Violation('documented-media-type-refused', (header, status))
        if len(log) != WANT_RUNS[ob['body']]:
            raise Violation('executions', (log, WANT_RUNS[ob['body']]))
        codes = WANT_CODES[ob['body']]
        if ref_out is None:
            if status != 200 or text:
                raise Violation('notification-reply-not-empty-200', (status, text))
            return ['empty-200']
        want_status = 200 if status_by_error is None else status_by_error(codes)
        if status != want_status:
            raise Violation('status-differs-from-status-by-error', (status, want_status, codes))
        if json.loads(text) != json.loads(ref_out[0]):
            raise Violation('body-differs-from-dispatcher-document', (text, ref_out[0]))
        if _media_type(ctype) != 'application/json':
            raise Violation('reply-content-type', ctype)
        return [status]

    return run


def h_endpoints(ob):
    """Several endpoint prefixes on one application: a request to one endpoint is served by THAT endpoint's dispatcher."""
    PREFIXES = ('', '/v1', '/v2') if not ob.get('slash') else ('', '/v1/', '/nested/v2/')      # 'slash': prefixes WRITTEN with a trailing slash

    def run(env):
        integ, nep, target = ob['integ'], ob['nep'], ob['target']
        log = []

        def mk(tag, is_async):
            def where(x):
                log.append(tag)
                return [tag, x]
            return _acoro(where) if is_async else where

        body = BODY_TEXT[ob['body']].replace('"echo"', '"where"')
        path = '/api' + PREFIXES[target].rstrip('/')
        try:
            if integ == 'flask':
                import flask
                from pjrpc.server.integration import flask as fi
                with env.untraced():
                    app = flask.Flask('verif')
                    rpc = fi.JsonRPC('/api')
                    rpc.dispatcher.add(mk('', False), name='where')
                    for pfx in PREFIXES[1:nep]:
                        rpc.add_endpoint(pfx).add(mk(pfx, False), name='where')
                    rpc.init_app(app)
                    client = app.test_client()
                resp = client.post(path, data=_bytes(body), headers={'Content-Type': 'application/json'})
                status, text = resp.status_code, resp.get_data(as_text=True)
            else:
                status, text = _aiohttp_routed(env, PREFIXES[:nep], path, body, mk)
        except Exception as e:
            raise Violation('raised-out-of-the-integration:' + type(e).__name__, path)
        env.reached()
        if status != 200:
            raise Violation('endpoint-status', (path, status))
        if log != [PREFIXES[target]]:
            raise Violation('request-served-by-another-endpoints-dispatcher', (path, log))
        if ob['body'] == 'notif':
            if text:
                raise Violation('notification-reply-not-empty', text)
            return ['empty']
        if json.loads(text).get('result') != [PREFIXES[target], 5]:
            raise Violation('reply-from-another-endpoint', (path, text))
        return ['served']

    return run


def _aiohttp_routed(env, prefixes, path, body, mk):
    import asyncio
    from unittest import mock
    from aiohttp import streams, web
    from aiohttp.test_utils import make_mocked_request
    from pjrpc.server.integration import aiohttp as integ

    async def go():
        app = integ.Application('/api')
        app.dispatcher.add(mk('', True), name='where')
        for pfx in prefixes[1:]:
            app.add_endpoint(pfx).add(mk(pfx, True), name='where')
        loop = asyncio.get_running_loop()
        payload = streams.StreamReader(mock.Mock(_reading_paused=False), 2 ** 16, loop=loop)
        payload.feed_data(_bytes(body))
        payload.feed_eof()
        req = make_mocked_request('POST', path, headers={'Content-Type': 'application/json'}, payload=payload, app=app.app)
        match = await app.app.router.resolve(req)
        try:
            resp = await match.handler(req)
        except web.HTTPException as e:
            resp = e
        return resp.status, (resp.text or '') if hasattr(resp, 'text') else ''

    return run_coro(go())


def _werkzeug(env, header, body, echo, fail):
    from werkzeug.test import EnvironBuilder, run_wsgi_app
    from pjrpc.server.integration import werkzeug as integ
    with env.untraced():
        app = integ.JsonRPC('/api')
        app.dispatcher.add(echo, name='echo')
        app.dispatcher.add(fail, name='fail')
        environ = EnvironBuilder(method='POST', path='/api', data=_bytes(body)).get_environ()
        environ.pop('CONTENT_TYPE', None)
    if header is not None:
        environ['CONTENT_TYPE'] = header
    app_iter, status, headers = run_wsgi_app(app, environ)
    text = b''.join(app_iter).decode()
    return int(status.split(' ')[0]), headers.get('Content-Type'), text


def _flask(env, header, body, echo, fail, status_by_error):
    import flask
    from pjrpc.server.integration import flask as integ
    with env.untraced():
        app = flask.Flask('verif')
        kw = {} if status_by_error is None else {'status_by_error': status_by_error}
        rpc = integ.JsonRPC('/api', **kw)
        rpc.dispatcher.add(echo, name='echo')
        rpc.dispatcher.add(fail, name='fail')
        rpc.init_app(app)
        client = app.test_client()
    headers = {} if header is None else {'Content-Type': header}
    resp = client.post('/api', data=_bytes(body), headers=headers)
    return resp.status_code, resp.headers.get('Content-Type'), resp.get_data(as_text=True)


def _aiohttp(env, header, body, echo, fail, status_by_error):
    import asyncio
    from unittest import mock
    from aiohttp import streams, web
    from aiohttp.test_utils import make_mocked_request
    from pjrpc.server.integration import aiohttp as integ

    async def go():
        kw = {} if status_by_error is None else {'status_by_error': status_by_error}
        app = integ.Application('/api', **kw)
        app.dispatcher.add(_acoro(echo), name='echo')
        app.dispatcher.add(_acoro(fail), name='fail')
        loop = asyncio.get_running_loop()
        payload = streams.StreamReader(mock.Mock(_reading_paused=False), 2 ** 16, loop=loop)
        payload.feed_data(_bytes(body))
        payload.feed_eof()
        headers = {} if header is None else {'Content-Type': header}
        req = make_mocked_request('POST', '/api', headers=headers, payload=payload)
        try:
            resp = await app._rpc_handle(req, dispatcher=app.dispatcher)
        except web.HTTPException as e:      # aiohttp turns a raised HTTPException into the response
            resp = e
        return resp.status, resp.headers.get('Content-Type'), (resp.text or '') if hasattr(resp, 'text') else ''

    return run_coro(go())


def h_sequence(ob):
    """Several requests served by ONE application object, one after the other: each gets a reply of its own (for aiohttp the
    returned response object must be an unsent one - the framework can send a response object only once; sending is simulated
    with prepare() / write_eof() on the mocked request)."""
    def run(env):
        import asyncio
        from unittest import mock
        integ_name = ob['integ']
        log = []
        echo, fail = _methods(log)
        bodies = [BODY_TEXT[b] for b in ob['seq']]
        replies = []
        try:
            if integ_name == 'flask':
                import flask
                from pjrpc.server.integration import flask as fi
                with env.untraced():
                    app = flask.Flask('verif')
                    rpc = fi.JsonRPC('/api')
                    rpc.dispatcher.add(echo, name='echo')
                    rpc.dispatcher.add(fail, name='fail')
                    rpc.init_app(app)
                    client = app.test_client()
                for body in bodies:
                    resp = client.post('/api', data=_bytes(body), headers={'Content-Type': 'application/json'})
                    replies.append((resp.status_code, resp.get_data(as_text=True), True))
            else:
                from aiohttp import streams, web
                from aiohttp.test_utils import make_mocked_request
                from pjrpc.server.integration import aiohttp as ai

                async def go():
                    app = ai.Application('/api')
                    app.dispatcher.add(_acoro(echo), name='echo')
                    app.dispatcher.add(_acoro(fail), name='fail')
                    loop = asyncio.get_running_loop()
                    for body in bodies:
                        payload = streams.StreamReader(mock.Mock(_reading_paused=False), 2 ** 16, loop=loop)
                        payload.feed_data(_bytes(body))
                        payload.feed_eof()
                        req = make_mocked_request('POST', '/api', headers={'Content-Type': 'application/json'}, payload=payload, app=app.app)
                        match = await app.app.router.resolve(req)
                        resp = await match.handler(req)
                        sendable = not resp.prepared
                        replies.append((resp.status, resp.text or '', sendable))
                        await resp.prepare(req)
                        await resp.write_eof()
                run_coro(go())
        except Violation:
            raise
        except Exception as e:
            raise Violation('raised-out-of-the-integration:' + type(e).__name__, ob['seq'])
        env.reached()
        runs = 0
        for k, (b, (status, text, sendable)) in enumerate(zip(ob['seq'], replies)):
            runs += WANT_RUNS[b]
            if not sendable:
                raise Violation('reply-object-already-sent', (k, ob['seq']))
            if status != 200:
                raise Violation('sequence-status', (k, status))
            if b == 'notif':
                if text:
                    raise Violation('notification-reply-not-empty-200', (k, text))
            else:
                want = {'ok': {'jsonrpc': '2.0', 'id': 7, 'result': [5]}}.get(b)
                if want is not None and json.loads(text) != want:
                    raise Violation('body-differs-from-dispatcher-document', (k, text))
        if len(replies) != len(bodies) or len(log) != runs:
            raise Violation('executions', (log, runs))
        return [len(replies)]

    return run
