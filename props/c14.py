"""
C14 -- parameter validators admit exactly the conforming calls (JSON-schema half; the pydantic half is not applicable).
"""
from __future__ import annotations

import itertools as it

from vlib.explore import Violation
from vlib.server import run_coro
from vlib.wire import Wire, normalise, same_json

PROP = 'C14'
MANIFEST = dict(
    text="Program-quantified symbolic check of JsonSchemaValidator (+ the real, pure-Python jsonschema 3.2.0) through the real dispatchers: signatures of 1..2 (quick) / 1..3 (thorough) parameters with / without defaults, "
         "per-parameter schema fragments {integer, string, boolean, array, object, enum, integer with minimum/maximum} plus required (also for parameters that have a Python default, i.e. a schema stricter than the signature) / additionalProperties:false, positional / named passing, a context parameter, a parameter removed by the exclusion predicate (last or in the middle of the signature), positional-only signatures, the same validated function registered twice (plain and with its first parameter as context, either served first), a class-based view with two methods validated against different schemas by one validator and called in sequence. "
         "Argument values are symbolic within bounded domains (ints in {-1,0,1,2,3,10,11}, strings in {'', 'a', 'b'}, both booleans) per concrete JSON kind. Oracle: executed <=> binds and a reference semantics of the schema fragment holds for the bound arguments; "
         "otherwise -32602 whose data survives the server JSON encoder, body not run; accepted arguments reach the method unchanged; the context / excluded parameters cannot be set by the client.",
    ref='5 C14',
    note="NOT covered: PydanticValidator (type annotations, coercion): pydantic_core is a compiled extension no Python-level symbolic executor can enter, and PydanticValidator.validate_method raises PydanticUserError on every call under the installed pydantic 2.13 "
         "(every test of tests/server/test_pydantic_validator.py is in the baseline's always-fail set). Leaf domains are bounded because jsonschema formats '%r' % instance eagerly on failing paths (realisation).",
)
BOUNDS = {
    'quick': {'signatures': '1 parameter x 7 fragments x 6 value kinds x {default, no default} x {positional, named}; 2 parameters: 7 x {integer, enum} fragments x 6 x {int, str, absent} value kinds',
              'domains': "ints in {-1,0,1,2,3,10,11}, strings in {'', 'a', 'b'}, booleans"},
    'thorough': {'signatures': '2 parameters full product 7 x 7 fragments x 6 x 6 value kinds; 3 parameters on a thinned product', 'domains': 'as quick'},
}
STUBS = ['S1', 'S4 (jsonschema.ValidationError.__str__ constant)', 'S5', 'S13']
OUTSIDE = ['PydanticValidator', 'nested schemas, $ref, formats', 'unbounded argument values']
ASSUMPTIONS = ['the schema describes the mapping of bound arguments (as the library passes it to jsonschema.validate)']
BUDGET = {'quick': 50.0, 'thorough': 200.0}

FRAGS = ('integer', 'string', 'boolean', 'array', 'object', 'enum', 'range')
VKINDS = ('int', 'str', 'bool', 'null', 'list0', 'dict0')


def setup():
    import warnings
    import jsonschema
    from pjrpc.common import exceptions as ex
    ex.DeserializationError.__str__ = lambda self: 'deserialization error'
    ex.IdentityError.__str__ = lambda self: 'identity error'
    jsonschema.ValidationError.__str__ = lambda self: 'schema violation'
    warnings.simplefilter('ignore')


def obligations(tier):
    obs = []
    for disp in ('sync', 'async'):
        for frag, vk, dflt, passing in it.product(FRAGS, VKINDS + ('absent',), (False, True), ('pos', 'named')):
            if vk == 'absent' and passing == 'pos' and not dflt:
                pass
            obs.append({'h': 'validate', 'disp': disp, 'params': [[frag, dflt, vk]], 'passing': passing, 'extra': 'none'})
        f2 = ('integer', 'enum') if tier == 'quick' else FRAGS
        v2 = ('int', 'str', 'absent') if tier == 'quick' else VKINDS + ('absent',)
        for fa, va, fb, vb, passing in it.product(FRAGS, VKINDS, f2, v2, ('pos', 'named')):
            if disp == 'async' and tier == 'quick' and fa not in ('integer', 'enum'):
                continue
            obs.append({'h': 'validate', 'disp': disp, 'params': [[fa, False, va], [fb, True, vb]], 'passing': passing, 'extra': 'none'})
        for frag, vk, passing in it.product(('integer', 'enum'), ('int', 'absent'), ('pos', 'named')):
            obs.append({'h': 'validate', 'disp': disp, 'params': [[frag, True, vk]], 'passing': passing, 'extra': 'reqall'})
            for vb in ('int', 'absent'):
                obs.append({'h': 'validate', 'disp': disp, 'params': [[frag, True, vk], ['integer', True, vb]], 'passing': passing, 'extra': 'reqall'})
        for frag, vk, passing in it.product(('integer', 'enum'), ('int', 'str'), ('pos', 'named')):
            obs.append({'h': 'twice', 'disp': disp, 'frag': frag, 'vk': vk, 'passing': passing})
        # a view with two validated methods (different schemas, one validator), called in sequence
        for (f1, f2), vks, seq, passing, ctx in it.product((('integer', 'string'), ('enum', 'integer')), (('int', 'int'), ('str', 'int'), ('int', 'str'), ('int', 'int', 'str')),
                                                           (('m1', 'm2'), ('m2', 'm1'), ('m1', 'm2', 'm1')), ('pos', 'named'), (0, 1, 2)):
            if len(vks) != len(seq):
                continue
            if tier == 'quick' and ctx == 1 and passing == 'pos':
                continue
            obs.append({'h': 'view2', 'disp': disp, 'f1': f1, 'f2': f2, 'vk': list(vks), 'seq': list(seq), 'passing': passing, 'ctx': ctx})
        # positional-only signatures, and an excluded parameter in the middle of the signature (both kinds of parameters)
        for (fa, va), (fb, vb) in it.product((('integer', 'int'), ('integer', 'str'), ('enum', 'int'), ('string', 'str')),
                                             (('integer', 'int'), ('integer', 'absent'), ('enum', 'str'))):
            for po in (0, 1):
                for extra in ('excluded_mid', 'none', 'ctx'):
                    if not po and extra != 'excluded_mid':
                        continue
                    for passing in (('pos',) if po else ('pos', 'named')):
                        obs.append({'h': 'validate', 'disp': disp, 'params': [[fa, False, va], [fb, True, vb]], 'passing': passing,
                                    'extra': extra, 'po': po})
        for extra in ('ctx', 'excluded', 'unknown', 'strict', 'ctxexcl', 'excldef'):
            for frag, vk, passing in it.product(('integer', 'enum', 'string'), ('int', 'str'), ('pos', 'named')):
                obs.append({'h': 'validate', 'disp': disp, 'params': [[frag, False, vk]], 'passing': passing, 'extra': extra})
        if tier == 'thorough':
            for fa, fb, fc, passing in it.product(('integer', 'range'), ('enum', 'string'), ('boolean', 'array'), ('pos', 'named')):
                for va, vb, vc in it.product(('int', 'str'), ('str', 'int'), ('bool', 'list0', 'absent')):
                    obs.append({'h': 'validate', 'disp': disp, 'params': [[fa, False, va], [fb, False, vb], [fc, True, vc]],
                                'passing': passing, 'extra': 'none'})
    return obs


def finding_key(ob, label, model):
    return f"{ob['h']}/{label}"


def make(ob):
    return globals()['h_' + ob['h']](ob)


# ---------------------------------------------------------------------------------------------------
def _fragment(frag):
    return {'integer': {'type': 'integer'}, 'string': {'type': 'string'}, 'boolean': {'type': 'boolean'},
            'array': {'type': 'array'}, 'object': {'type': 'object'}, 'enum': {'enum': [1, 2, 'a']},
            'range': {'type': 'integer', 'minimum': 0, 'maximum': 10}}[frag]


def _conforms(frag, kind, v):
    """Reference semantics of the fragment for a value of concrete JSON kind `kind`."""
    if frag == 'integer':
        return kind == 'int'
    if frag == 'string':
        return kind == 'str'
    if frag == 'boolean':
        return kind == 'bool'
    if frag == 'array':
        return kind == 'list0'
    if frag == 'object':
        return kind == 'dict0'
    if frag == 'enum':
        if kind == 'int':
            return v == 1 or v == 2
        if kind == 'str':
            return v == 'a'
        return False
    if frag == 'range':
        return kind == 'int' and 0 <= v <= 10
    raise ValueError(frag)


def _value(env, kind, name):
    if kind == 'int':
        v = env.int(name, -1, 11)
        env.assume(v <= 3 or v >= 10)          # bounded domain {-1,0,1,2,3,10,11}: around the enum values and both range bounds
        return v
    if kind == 'str':
        s = env.str(name, 1)
        env.assume(s == '' or s == 'a' or s == 'b')
        return s
    if kind == 'bool':
        return env.bool(name)
    if kind == 'null':
        return None
    if kind == 'list0':
        return []
    return {}


def h_validate(ob):
    def run(env):
        import pjrpc.server
        from pjrpc.server.validators import jsonschema as jsv_mod
        is_async = ob['disp'] == 'async'
        extra = ob['extra']
        params = ob['params']
        names = [f'p{i}' for i in range(len(params))]
        props = {n: _fragment(p[0]) for n, p in zip(names, params)}
        required = [n for n, p in zip(names, params) if not p[1]]
        schema_required = list(names) if extra == 'reqall' else required     # 'reqall': the schema demands more than the signature
        schema = {'type': 'object', 'properties': props, 'required': schema_required}
        if extra == 'strict':
            schema['additionalProperties'] = False
        po = bool(ob.get('po'))                  # every parameter positional-only
        if extra == 'excluded_mid':               # the excluded parameter sits in the MIDDLE of the signature
            extra, dep_mid = 'excluded', True
        else:
            dep_mid = False
        has_ctx = extra in ('ctx', 'ctxexcl')     # 'ctxexcl': a context parameter AND a parameter removed by the predicate
        has_excl = extra in ('excluded', 'ctxexcl', 'excldef')
        by_default = extra == 'excldef'           # the predicate selects by DEFAULT VALUE (default is None), not by name
        depsrc = 'dep=None' if by_default else "dep='injected'"
        depval = None if by_default else 'injected'
        validator = jsv_mod.JsonSchemaValidator(exclude_param=((lambda name, ann, default: default is None) if by_default else (lambda name, ann, default: name == 'dep')) if has_excl else None)
        log = []
        sig = []
        if has_ctx:
            sig.append('ctx')
        for i, (n, p) in enumerate(zip(names, params)):
            if dep_mid and i == 1:
                sig.append(depsrc)
            sig.append(n + ("='D'" if p[1] else ''))
        if has_excl and depsrc not in sig:
            sig.append(depsrc)
        allnames = [s.split('=')[0] for s in sig]
        kw = 'async def' if is_async else 'def'
        ns = {'log': log}
        exec(f"{kw} meth({', '.join(sig + (['/'] if po and sig else []))}):\n    log.append([{', '.join(allnames)}])\n    return [{', '.join(allnames)}]\n", ns)
        meth = validator.validate(ns['meth'], schema=schema)
        wire = Wire(env)
        d = (pjrpc.server.AsyncDispatcher if is_async else pjrpc.server.Dispatcher)(**wire.kwargs())
        d.add(meth, name='meth', context='ctx' if has_ctx else None)
        # ---- the call ------------------------------------------------------------------------------
        vals = []
        for n, p in zip(names, params):
            vals.append(None if p[2] == 'absent' else ('v', _value(env, p[2], n)))
        if ob['passing'] == 'pos':
            # positional: values up to the first absent one
            plist = []
            for v in vals:
                if v is None:
                    break
                plist.append(v[1])
            provided = names[:len(plist)]
            wire_params = plist
            binds = all(n in provided for n in required)
            if extra == 'unknown':
                wire_params = plist + [0]
                provided_extra = True
                binds = False                      # one positional value too many (no parameter left to take it)
            if has_excl and all(v is not None for v in vals) and env.bool('client_sends_dep_pos'):
                wire_params = list(wire_params) + ['client-dep']       # one positional value more: would land in the excluded parameter
                binds = False
        else:
            mapping = {}
            for n, v in zip(names, vals):
                if v is not None:
                    mapping = {**mapping, n: v[1]}
            provided = [n for n, v in zip(names, vals) if v is not None]
            binds = all(n in provided for n in required)
            if extra == 'unknown':
                mapping = {**mapping, 'zz': 0}
                binds = False
            if has_ctx:
                if env.bool('client_sends_ctx'):
                    mapping = {**mapping, 'ctx': 'client-ctx'}
                    binds = False
            if has_excl:
                if env.bool('client_sends_dep'):
                    mapping = {**mapping, 'dep': 'client-dep'}
                    binds = False
            wire_params = mapping
        valid = binds
        if binds and any(n not in provided for n in schema_required):
            valid = False
        if binds:
            for n, p, v in zip(names, params, vals):
                if n in provided and not _conforms(p[0], p[2], v[1]):
                    valid = False
        doc = {'jsonrpc': '2.0', 'id': 1, 'method': 'meth', 'params': wire_params}
        CTX = 'server-ctx'
        try:
            out = d.dispatch(wire.encode(doc), CTX)
            if is_async:
                out = run_coro(out)
        except Exception as e:
            raise Violation('raised:' + type(e).__name__, (schema, wire_params))
        env.reached()
        rdoc = wire.decode(out[0])
        if not valid:
            if 'error' not in rdoc or rdoc['error'].get('code') != -32602:
                raise Violation('non-conforming-call-not-32602', (schema, sig, wire_params, rdoc))
            if log:
                raise Violation('body-ran-on-non-conforming-call', (schema, wire_params))
            try:
                normalise(rdoc['error'].get('data'))
            except TypeError:
                raise Violation('error-data-not-json-encodable', rdoc)
            return ['-32602']
        if 'error' in rdoc:
            raise Violation('conforming-call-refused:' + str(rdoc['error'].get('code')), (schema, sig, wire_params, rdoc))
        byname = {n: (v[1] if n in provided else 'D') for n, v in zip(names, vals)}
        want = [CTX if a == 'ctx' else (depval if a == 'dep' else byname[a]) for a in allnames]
        if len(log) != 1 or not same_json(log[0], want):
            raise Violation('arguments-changed-or-not-executed-once', (schema, wire_params, log, want))
        if not same_json(rdoc.get('result'), want):
            raise Violation('result-differs', (rdoc, want))
        return ['executed']

    return run


def h_twice(ob):
    """The SAME validated function served twice by one dispatcher: as `plain(p0, p1='D')` and as `withctx` where p0 is the
    context parameter.  Whichever is called first must not change how the other one binds / validates."""
    def run(env):
        import pjrpc.server
        from pjrpc.server.validators import jsonschema as jsv_mod
        is_async = ob['disp'] == 'async'
        validator = jsv_mod.JsonSchemaValidator()
        log = []
        ns = {'log': log}
        kw = 'async def' if is_async else 'def'
        exec(f"{kw} meth(p0, p1='D'):\n    log.append([p0, p1])\n    return [p0, p1]\n", ns)
        schema = {'type': 'object', 'properties': {'p0': _fragment(ob['frag']), 'p1': {}}}
        meth = validator.validate(ns['meth'], schema=schema)
        wire = Wire(env)
        d = (pjrpc.server.AsyncDispatcher if is_async else pjrpc.server.Dispatcher)(**wire.kwargs())
        d.add(meth, name='plain')
        d.add(meth, name='withctx', context='p0')

        def call(name, params):
            out = d.dispatch(wire.encode({'jsonrpc': '2.0', 'id': 1, 'method': name, 'params': params}), 'CTX')
            if is_async:
                out = run_coro(out)
            return wire.decode(out[0])

        v = _value(env, ob['vk'], 'p0')
        conforms = _conforms(ob['frag'], ob['vk'], v)
        plain_params = [v] if ob['passing'] == 'pos' else {'p0': v}
        ctx_params = [7] if ob['passing'] == 'pos' else {'p1': 7}
        order = ('withctx', 'plain') if env.bool('ctx_first') else ('plain', 'withctx')
        try:
            res = {name: call(name, ctx_params if name == 'withctx' else plain_params) for name in order}
            steal = call('withctx', {'p0': 1, 'p1': 2})          # the client must not be able to set the context
        except Exception as e:
            raise Violation('raised:' + type(e).__name__, order)
        env.reached()
        r = res['plain']
        if conforms:
            if 'error' in r or not same_json(r.get('result'), [v, 'D']):
                raise Violation('conforming-call-refused-or-changed', (order, plain_params, r))
        elif 'error' not in r or r['error'].get('code') != -32602:
            raise Violation('non-conforming-call-not-32602', (order, plain_params, r))
        r = res['withctx']
        if 'error' in r or not same_json(r.get('result'), ['CTX', 7]):
            raise Violation('context-registration-misbinds', (order, ctx_params, r))
        if 'error' not in steal or steal['error'].get('code') != -32602:
            raise Violation('client-set-the-context-parameter', (order, steal))
        return [order[0], conforms]

    return run


def h_view2(ob):
    """A class-based view with TWO methods validated by the same validator instance against different schemas, called one
    after the other (a fresh view instance and fresh bound methods per request): each call is judged by its own schema."""
    def run(env):
        import pjrpc.server
        from pjrpc.server.validators import jsonschema as jsv_mod
        is_async = ob['disp'] == 'async'
        validator = jsv_mod.JsonSchemaValidator()
        log = []
        ns = {'log': log, 'validator': validator, 'ViewMixin': pjrpc.server.ViewMixin,
              'S1': {'type': 'object', 'properties': {'a': _fragment(ob['f1'])}, 'required': ['a']},
              'S2': {'type': 'object', 'properties': {'a': _fragment(ob['f2'])}, 'required': ['a']}}
        kw = 'async def' if is_async else 'def'
        cname = 'a' if ob['ctx'] == 2 else 'ctx'       # ctx == 2: the view's context is NAMED LIKE the methods' parameter
        exec(f"class V(ViewMixin):\n    def __init__(self, {cname}=None):\n        self.ctx = {cname}\n"
             f"    @validator.validate(schema=S1)\n    {kw} m1(self, a):\n        log.append(['m1', a])\n        return ['m1', a]\n"
             f"    @validator.validate(schema=S2)\n    {kw} m2(self, a):\n        log.append(['m2', a])\n        return ['m2', a]\n", ns)
        wire = Wire(env)
        d = (pjrpc.server.AsyncDispatcher if is_async else pjrpc.server.Dispatcher)(**wire.kwargs())
        d.registry.view(ns['V'], context=cname if ob['ctx'] else None)
        seq = ob['seq']
        outs, wants = [], []
        for i, m in enumerate(seq):
            v = _value(env, ob['vk'][i], f'v{i}')
            params = [v] if ob['passing'] == 'pos' else {'a': v}
            n0 = len(log)
            try:
                out = d.dispatch(wire.encode({'jsonrpc': '2.0', 'id': i, 'method': m, 'params': params}), ['ctx', i])
                if is_async:
                    out = run_coro(out)
            except Exception as e:
                raise Violation('raised:' + type(e).__name__, (seq, i))
            r = wire.decode(out[0])
            ok = _conforms(ob['f1'] if m == 'm1' else ob['f2'], ob['vk'][i], v)
            env.reached()
            if ok:
                if 'error' in r or not same_json(r.get('result'), [m, v]) or len(log) != n0 + 1:
                    raise Violation('conforming-call-refused-or-changed', (seq, i, params, r))
            else:
                if 'error' not in r or r['error'].get('code') != -32602:
                    raise Violation('non-conforming-call-not-32602', (seq, i, params, r))
                if len(log) != n0:
                    raise Violation('body-ran-on-non-conforming-call', (seq, i, params))
            outs.append(ok)
        return outs

    return run
