"""
C03 -- failures map to the JSON-RPC 2.0 error codes; application errors pass verbatim; other exceptions leak nothing.
"""
from __future__ import annotations

import itertools as it

from vlib.explore import Violation
from vlib.server import run_coro
from vlib.server import EXC_TYPES, MARKER, Rig
from vlib.wire import KINDS, Box, Wire, build, obj, same_json

PROP = 'C03'
ID_OK = ('absent', 'null', 'int', 'str')
PARAMS_OK = ('absent', 'list0', 'list1', 'dict0', 'dict1')
DATA_KINDS = ('absent', 'null', 'bool', 'int', 'str', 'list0', 'list1', 'dict0', 'dict1')
QK_J = ('absent', 'int', 'str')
QK_M = ('absent', 'int', 'str')

BOUNDS = {
    'quick': {'classify': 'objects: jsonrpc in {absent,int,str} x id in K x method in {absent,int,str(symbolic)} x params in K, both dispatchers; scalars; loader outcomes',
              'app': 'protocol error with symbolic code (any int), symbolic message (len<=3), data over {absent,null,bool,int,str,[],[int],{},{"a":int}} x {call, notification, inside a 2-batch at either position} x dispatchers',
              'exc': '6 exception types carrying a marker x {call, notification, in batch} x dispatchers',
              'rejected-batch': 'empty batch, batch with a non-request, duplicate ids, over the limit'},
    'thorough': {'classify': 'full product K^4', 'app': 'as quick', 'exc': 'as quick', 'rejected-batch': 'as quick'},
}
STUBS = ['S1', 'S2', 'S4 (content of error.data built from exception text is outside the claim)', 'S5', 'S8', 'S13']
OUTSIDE = ['text of error.data strings derived from exception messages', 'validator-specific failures (C14)']
ASSUMPTIONS = ['the five registered methods of the rig: echo(x), two(a, b=5), perr(k), boom()']
BUDGET = {'quick': 40.0, 'thorough': 120.0}

MANIFEST = dict(
    text="Symbolic check of the failure classification on the real dispatchers: for object skeletons over the kind alphabet a reference classifier written from the statement "
         "(-32700 / -32600 id null / -32601 / -32602 body not run / verbatim protocol error / bare -32000) is compared with the response for all leaf values (method name is a symbolic string, "
         "protocol error code any int, message symbolic, data over 9 JSON shapes incl. absent vs null); exception types with a marker string must leak nothing; each as call, notification and inside a batch.",
    ref='5 C03',
    note="Content of error.data strings derived from exception texts is outside the claim (S4). Validators other than the default one: C14.",
)


def setup():
    from pjrpc.common import exceptions as ex
    ex.DeserializationError.__str__ = lambda self: 'deserialization error'
    ex.IdentityError.__str__ = lambda self: 'identity error'


def obligations(tier):
    obs = []
    for d in ('sync', 'async'):
        for fault in ('decode', 'value'):
            obs.append({'h': 'loader', 'fault': fault, 'disp': d})
        for k in ('null', 'bool', 'int', 'float', 'str'):
            obs.append({'h': 'scalar', 'k': k, 'disp': d})
        prod = it.product(QK_J, KINDS, QK_M, KINDS) if tier == 'quick' else it.product(KINDS, KINDS, KINDS, KINDS)
        for kj, ki, km, kp in prod:
            obs.append({'h': 'classify', 'k': [kj, ki, km, kp], 'disp': d})
        for kp in ('list2', 'dict2'):
            for ki in ('int', 'absent'):
                obs.append({'h': 'classify', 'k': ['str', ki, 'str', kp], 'disp': d})
        for dk in DATA_KINDS:
            for mode in ('call', 'notif', 'batch0', 'batch1', 'batchn'):
                obs.append({'h': 'app', 'data': dk, 'mode': mode, 'disp': d})
            if d == 'async' and dk in ('absent', 'null', 'int'):
                obs.append({'h': 'app', 'data': dk, 'mode': 'call', 'disp': d, 'plain': 1})
        for exc in EXC_TYPES:
            for mode in ('call', 'notif', 'batch0', 'batch1', 'batchn'):
                obs.append({'h': 'exc', 'exc': exc, 'mode': mode, 'disp': d})
            if d == 'async':       # the asynchronous dispatcher serving PLAIN (non-coroutine) functions
                for mode in ('call', 'batch1'):
                    obs.append({'h': 'exc', 'exc': exc, 'mode': mode, 'disp': d, 'plain': 1})
        for a, b in it.product(('absent', 'null', 'int', 'str', 'zero', 'list'), repeat=2):
            if a != b or a in ('int', 'list'):
                obs.append({'h': 'app2', 'data': [a, b], 'disp': d})
        obs.append({'h': 'app2', 'data': ['str', 'absent', 'null'], 'disp': d})
        for why in ('empty', 'nonrequest0', 'nonrequest1', 'dup', 'over', 'dupstr', 'dup3', 'dupmix', 'dupmix5', 'dupnotif'):
            obs.append({'h': 'badbatch', 'why': why, 'disp': d})
    return obs


def finding_key(ob, label, model):
    return f"{ob['h']}/{label}"


def make(ob):
    return globals()['h_' + ob['h']](ob)


def _dispatch(rig, text):
    try:
        return rig.dispatch_text(text)
    except Exception as e:
        raise Violation('raised:' + type(e).__name__, text)


def _single_error(out, wire, code, want_id, label):
    if out is None:
        raise Violation(label + ':unanswered')
    doc = wire.decode(out[0])
    if not isinstance(doc, dict) or 'error' not in doc or 'result' in doc:
        raise Violation(label + ':not-an-error-response', doc)
    if doc['error'].get('code') != code or isinstance(doc['error'].get('code'), bool):
        raise Violation(label + f':code-not-{code}', doc)
    if not same_json(doc.get('id', 'missing'), want_id):
        raise Violation(label + ':wrong-id', doc)
    if tuple(out[1]) != (code,):
        raise Violation(label + ':codes-tuple', (doc, out[1]))
    return doc


def h_loader(ob):
    def run(env):
        wire = Wire(env, loader_fault=ob['fault'])
        rig = Rig(env, ob['disp'], wire=wire)
        text = ('{"jsonrpc": "2.0", ' if ob['fault'] == 'decode' else '1' * 5000) if env.real else Box(None)
        out = _dispatch(rig, text)
        env.reached()
        _single_error(out, wire, -32700, None, 'not-json')
        if rig.log:
            raise Violation('not-json:executed', rig.log)
        return 'ok'

    return run


def h_scalar(ob):
    def run(env):
        wire = Wire(env)
        rig = Rig(env, ob['disp'], wire=wire)
        out = _dispatch(rig, wire.encode(build(env, ob['k'], 'doc', 2)))
        env.reached()
        _single_error(out, wire, -32600, None, 'non-request')
        return 'ok'

    return run


def _binds(method, kp):
    """Reference binding relation for the rig's fixed signatures and the params kinds of the alphabet."""
    n_pos = {'absent': 0, 'list0': 0, 'list1': 1, 'list2': 2}.get(kp)
    keys = {'dict0': (), 'dict1': ('a',), 'dict2': ('a', 'b')}.get(kp)
    if method == 'echo':
        return n_pos == 1
    if method == 'perr':
        return n_pos == 1
    if method == 'boom':
        return n_pos == 0 or keys == ()
    if method == 'two':
        return n_pos in (1, 2) or keys in (('a',), ('a', 'b'))
    return False


def h_classify(ob):
    kj, ki, km, kp = ob['k']

    def run(env):
        wire = Wire(env)
        rig = Rig(env, ob['disp'], wire=wire)
        doc = obj(jsonrpc=build(env, kj, 'jsonrpc'), id=build(env, ki, 'id', 2), method=build(env, km, 'method'),
                  params=build(env, kp, 'params'))
        out = _dispatch(rig, wire.encode(doc))
        env.reached()
        valid = (kj == 'str' and doc['jsonrpc'] == '2.0' and ki in ID_OK and km == 'str'
                 and kp in PARAMS_OK + ('list2', 'dict2'))
        if not valid:
            _single_error(out, wire, -32600, None, 'invalid-request')
            if rig.log:
                raise Violation('invalid-request:executed', (doc, rig.log))
            return ['-32600']
        rid = doc.get('id')
        m = doc['method']
        notif = rid is None
        # the rig also registers a view whose constructor fails (internal error, C12's subject): not a failure class of C03
        env.assume(m != 'vfail')
        if m not in ('echo', 'two', 'perr', 'boom'):
            want = -32601
        elif not _binds(m, kp):
            want = -32602
        elif m == 'perr':
            want = 'perr'
        elif m == 'boom':
            want = -32000
        else:
            want = 0
        if want in (-32601, -32602) and rig.log:
            raise Violation(f'{want}:body-ran', (doc, rig.log))
        if want not in (-32601, -32602) and len(rig.log) != 1:
            raise Violation('not-executed-once', (doc, rig.log))
        if notif:
            if out is not None:
                raise Violation('notification-answered', (doc, out))
            return ['notif', want if isinstance(want, int) else 1]
        if want == 0:
            if out is None:
                raise Violation('call-unanswered', doc)
            rdoc = wire.decode(out[0])
            if 'result' not in rdoc or 'error' in rdoc or not same_json(rdoc.get('id', 'missing'), rid):
                raise Violation('success-expected', (doc, rdoc))
            return ['ok']
        if want == 'perr':
            rdoc = wire.decode(out[0]) if out else None
            if not rdoc or 'error' not in rdoc or rdoc['error'].get('code') != rig.env.int('perr.code'):
                raise Violation('protocol-error-code-changed', (doc, rdoc))
            return ['perr']
        _single_error(out, wire, want, rid, f'{want}')
        return [str(want)]

    return run


def _wrap(env, wire, mode, method, params=None):
    """Build the request document for `mode`; returns (doc, position of our element or None, id)."""
    el = {'jsonrpc': '2.0', 'method': method}
    if params is not None:
        el['params'] = params
    rid = None
    if mode != 'notif':
        rid = env.int('rid')
        el['id'] = rid
    if mode == 'batch0':
        other = {'jsonrpc': '2.0', 'method': 'echo', 'params': [7], 'id': env.int('oid')}
        env.assume(other['id'] != rid)
        return [el, other], 0, rid
    if mode == 'batchn':        # our element followed by a NOTIFICATION as last element of the batch
        other = {'jsonrpc': '2.0', 'method': 'echo', 'params': [7]}
        return [el, other], 0, rid
    if mode == 'batch1':
        other = {'jsonrpc': '2.0', 'method': 'echo', 'params': [7], 'id': env.int('oid')}
        env.assume(other['id'] != rid)
        return [other, el], 1, rid
    return el, None, rid


def _our_response(out, wire, pos, rid, doc):
    if out is None:
        raise Violation('unanswered', doc)
    rdoc = wire.decode(out[0])
    if pos is None:
        r, code = rdoc, out[1][0] if len(out[1]) == 1 else 'bad'
    else:
        n = len([e for e in doc if 'id' in e])
        if not isinstance(rdoc, list) or len(rdoc) != n:
            raise Violation('batch-shape', (doc, rdoc))
        r, code = rdoc[pos], out[1][pos] if len(out[1]) == n else 'bad'
    if not isinstance(r, dict) or not same_json(r.get('id', 'missing'), rid):
        raise Violation('wrong-id', (doc, rdoc))
    return r, code, rdoc


def h_app(ob):
    def run(env):
        wire = Wire(env)
        rig = Rig(env, ob['disp'], wire=wire, perr_data=ob['data'], plain_on_async=bool(ob.get('plain')))
        doc, pos, rid = _wrap(env, wire, ob['mode'], 'perr', {'k': env.int('k')})
        out = _dispatch(rig, wire.encode(doc))
        env.reached()
        if ['perr', doc['params']['k'] if pos is None else doc[pos]['params']['k']] not in rig.log:
            raise Violation('method-not-run', rig.log)
        if ob['mode'] == 'notif':
            if out is not None:
                raise Violation('failed-notification-answered', out)
            return 'notif'
        r, code, rdoc = _our_response(out, wire, pos, rid, doc)
        want = {'code': env.int('perr.code'), 'message': env.str('perr.msg')}
        if ob['data'] != 'absent':
            want['data'] = build(env, ob['data'], 'perr.data', 2)
        if 'error' not in r or 'result' in r:
            raise Violation('app-error-became-success', (doc, rdoc))
        if not same_json(r['error'], want):
            raise Violation('app-error-not-verbatim', (want, r['error']))
        if code != want['code'] or isinstance(code, bool):
            raise Violation('app-error-codes-tuple', (want, out[1]))
        return ['verbatim']

    return run


def _contains_marker(v):
    if isinstance(v, str):
        return MARKER in v or 'Traceback' in v
    if isinstance(v, dict):
        return any(_contains_marker(k) or _contains_marker(x) for k, x in v.items())
    if isinstance(v, (list, tuple)):
        return any(_contains_marker(x) for x in v)
    return False


def h_exc(ob):
    def run(env):
        wire = Wire(env)
        rig = Rig(env, ob['disp'], wire=wire, exc=ob['exc'], plain_on_async=bool(ob.get('plain')))
        doc, pos, rid = _wrap(env, wire, ob['mode'], 'boom')
        out = _dispatch(rig, wire.encode(doc))
        env.reached()
        if ['boom'] not in rig.log:
            raise Violation('method-not-run', rig.log)
        if ob['mode'] == 'notif':
            if out is not None:
                raise Violation('failed-notification-answered', out)
            return 'notif'
        r, code, rdoc = _our_response(out, wire, pos, rid, doc)
        if not same_json(r.get('error'), {'code': -32000, 'message': 'Server error'}):
            raise Violation('exception-not-reported-as-bare-server-error', r)
        if code != -32000:
            raise Violation('exception-codes-tuple', out[1])
        if _contains_marker(rdoc) or (env.real and (MARKER in out[0] or ob['exc'] in out[0])):
            raise Violation('exception-detail-leaked', rdoc)
        return ['-32000']

    return run


def h_badbatch(ob):
    def run(env):
        wire = Wire(env)
        why = ob['why']
        mbs = None
        a = {'jsonrpc': '2.0', 'method': 'echo', 'params': [1], 'id': env.int('ida')}
        b = {'jsonrpc': '2.0', 'method': 'echo', 'params': [2], 'id': env.int('idb')}
        if why == 'empty':
            doc = []
        elif why == 'nonrequest0':
            doc = [env.int('x'), a]
        elif why == 'nonrequest1':
            doc = [a, {'jsonrpc': '2.0', 'id': 3}]
        elif why == 'dup':
            env.assume(a['id'] == b['id'])
            doc = [a, b]
        elif why in ('dupstr', 'dup3', 'dupmix', 'dupmix5', 'dupnotif'):
            # duplicated ids of either JSON type, several duplicated ids at once, non-adjacent positions
            def el(i, idv):
                return {'jsonrpc': '2.0', 'method': 'echo', 'params': [i], 'id': idv}
            if why == 'dupstr':
                ids = [env.str('s0', 2), env.str('s1', 2)]
                env.assume(ids[0] == ids[1])
            elif why == 'dup3':
                ids = [env.int('i0'), env.int('i1'), env.int('i2')]
                env.assume(ids[0] == ids[2])
                env.assume(ids[0] != ids[1])
            elif why == 'dupnotif':
                ids = [env.int('i0'), None, env.int('i2')]
                env.assume(ids[0] == ids[2])
            else:
                ids = [env.int('i0'), env.str('s1', 2), env.int('i2'), env.str('s3', 2)]
                env.assume(ids[0] == ids[2])
                env.assume(ids[1] == ids[3])
                if why == 'dupmix5':
                    ids.insert(2, env.int('i4'))
            doc = [el(i, v) for i, v in enumerate(ids)]
            for e in doc:
                if e['id'] is None:
                    del e['id']
        else:
            env.assume(a['id'] != b['id'])
            mbs = env.int('mbs', 1, 1)
            doc = [a, b]
        rig = Rig(env, ob['disp'], wire=wire, max_batch_size=mbs)
        out = _dispatch(rig, wire.encode(doc))
        env.reached()
        _single_error(out, wire, -32600, None, 'bad-batch:' + why)
        if rig.log:
            raise Violation('bad-batch-executed', rig.log)
        return 'ok'

    return run


def h_app2(ob):
    """A batch of TWO failing calls whose errors have the same code and message but different data (absent / null / values):
    each response carries exactly its own data."""
    def run(env):
        import pjrpc.server
        from pjrpc.common import UNSET
        wire = Wire(env)
        is_async = ob['disp'] == 'async'
        code, msg = env.int('code'), env.str('msg', 2)
        states = {'absent': UNSET, 'null': None, 'int': env.int('d_int'), 'str': 'first', 'zero': 0, 'list': [env.int('d_l')]}

        def fail(which):
            raise pjrpc.exc.JsonRpcError(code=code, message=msg, data=states[which])

        if is_async:
            async def afail(which):
                fail(which)
            fn = afail
        else:
            fn = fail
        d = (pjrpc.server.AsyncDispatcher if is_async else pjrpc.server.Dispatcher)(**wire.kwargs())
        d.add(fn, name='fail')
        doc = [{'jsonrpc': '2.0', 'id': i, 'method': 'fail', 'params': [w]} for i, w in enumerate(ob['data'])]
        try:
            out = d.dispatch(wire.encode(doc))
            if is_async:
                out = run_coro(out)
        except Exception as e:
            raise Violation('raised:' + type(e).__name__, doc)
        env.reached()
        rdoc = wire.decode(out[0])
        if not isinstance(rdoc, list) or len(rdoc) != len(doc):
            raise Violation('batch-response-shape', rdoc)
        for i, (w, r) in enumerate(zip(ob['data'], rdoc)):
            want = {'code': code, 'message': msg}
            if w != 'absent':
                want['data'] = states[w]
            if r.get('id') != i or 'error' not in r or not same_json(r['error'], want):
                raise Violation('app-error-not-verbatim', (i, want, r))
        return ['verbatim2']

    return run
