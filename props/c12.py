"""
C12 -- middlewares and error handlers run once per request element, in the declared order.
"""
from __future__ import annotations

import itertools as it

from vlib.explore import Violation
from vlib.server import Rig
from vlib.wire import Wire, same_json

PROP = 'C12'
MANIFEST = dict(
    text="Symbolic check of the real dispatchers' middleware chain and error-handler fold: stacks of 0..2 (quick) / 0..3 (thorough) middlewares over {pass-through, short-circuit, request-rewriting, response-rewriting} (plus stacks with a middleware that answers every request, notifications included, itself; the stack also handed over as iterator / tuple / generator) "
         "x handler tables {none, generic, per-code, both, two per key, generic handler replacing the error by one with another code, per-code handler replacing the error} x request kinds "
         "{success, unknown method, params do not bind, protocol error, arbitrary exception in the method, failure outside the method (view constructor -> internal error), notification (ok / failing), 2-element batch of calls, batch of notifications only, mixed batch, rejected document, rejected batch} x sync / async. "
         "The raised error code, the TABLE KEYS and the replacement code are z3 integers, so the solver decides which per-code list fires (incl. replacement code == another key). "
         "Oracle: event log == log computed by a reference interpreter of the statement; the document sent == what the outermost middleware returned; handlers silent on success and on rejected documents; same context object everywhere.",
    ref='5 C12',
    note="Middlewares / handlers are well-behaved recorders (they do not raise). Handler tables are built with a dict comprehension (a dict literal with symbolic keys would be realised by CrossHair).",
)
BOUNDS = {
    'quick': {'stacks': 'all 21 stacks of length 0..2', 'tables': '7 kinds, keys symbolic', 'requests': '14 kinds', 'dispatchers': 'sync, async'},
    'thorough': {'stacks': 'all 85 stacks of length 0..3', 'tables': '7 kinds', 'requests': '14 kinds', 'dispatchers': 'sync, async'},
}
STUBS = ['S1', 'S4', 'S5', 'S8', 'S13']
OUTSIDE = ['middlewares / handlers that raise', 'stacks deeper than the bound']
ASSUMPTIONS = ['the two per-code keys of a table are distinct']
BUDGET = {'quick': 40.0, 'thorough': 120.0}

MW_KINDS = ('P', 'S', 'Q', 'W')
TABLES = ('none', 'generic', 'percode', 'both', 'two', 'replace_generic', 'replace_percode')
REQS = ('ok', 'unknown', 'nobind', 'perr', 'boom', 'internal', 'notif_ok', 'notif_perr', 'batch', 'notif_batch', 'mixed_batch', 'batch_2fail', 'rejected', 'rejected_batch')


def setup():
    from pjrpc.common import exceptions as ex
    ex.DeserializationError.__str__ = lambda self: 'deserialization error'
    ex.IdentityError.__str__ = lambda self: 'identity error'


def obligations(tier):
    obs = []
    maxd = 2 if tier == 'quick' else 3
    stacks = [list(c) for n in range(0, maxd + 1) for c in it.product(MW_KINDS, repeat=n)]
    for disp, stack, table, req in it.product(('sync', 'async'), stacks, TABLES, REQS):
        if len(stack) == 3 and table in ('two', 'both') and req in ('unknown', 'nobind'):
            continue
        obs.append({'h': 'chain', 'disp': disp, 'stack': stack, 'table': table, 'req': req})
    # two failures of one exception class with different codes against tables with per-code handlers
    for disp, table, swap in it.product(('sync', 'async'), ('percode', 'both', 'two', 'replace_generic', 'replace_percode'), (0, 1)):
        obs.append({'h': 'chain', 'disp': disp, 'stack': [], 'table': table, 'req': 'batch_2codes', 'swap': swap})
    # handler tables written with the per-code keys first (the order of running is generic, then per-code, whatever the writing order)
    for disp, table, req in it.product(('sync', 'async'), ('both_rev', 'two_rev', 'replace_generic_rev'), ('unknown', 'nobind', 'perr', 'boom', 'notif_perr', 'batch', 'batch_2fail')):
        for stack in ([], ['P']):
            obs.append({'h': 'chain', 'disp': disp, 'stack': stack, 'table': table, 'req': req})
    # a middleware that answers every request itself, notifications included
    for disp, stack, table, req in it.product(('sync', 'async'), (['A'], ['P', 'A'], ['W', 'A'], ['A', 'P']), ('none', 'generic'),
                                              ('ok', 'notif_ok', 'notif_perr', 'batch', 'notif_batch', 'mixed_batch')):
        obs.append({'h': 'chain', 'disp': disp, 'stack': stack, 'table': table, 'req': req})
    # the middleware stack / handler lists handed over in other container forms (the parameters are typed Iterable / Mapping)
    for disp, stack, form, req in it.product(('sync', 'async'), ([k] for k in MW_KINDS), ('iter', 'tuple', 'gen'), ('ok', 'unknown', 'notif_ok', 'batch')):
        if req not in REQS:
            continue
        obs.append({'h': 'chain', 'disp': disp, 'stack': stack + ['P'], 'table': 'generic', 'req': req, 'form': form})
    return obs


def finding_key(ob, label, model):
    return f"{ob['h']}/{label}"


def make(ob):
    return globals()['h_' + ob['h']](ob)


def _mk_middleware(i, kind, log, ctx, is_async):
    import pjrpc
    from pjrpc.common import UNSET, Request, Response

    def enter(request, context):
        log.append(['mw', i, 'in', request.method, request.id, context is ctx])

    def rewrite(request):
        return Request(method=request.method, params=[99], id=request.id)

    def short(request):
        if kind == 'A':          # answers EVERY request itself, notifications included: what the chain returns is what is sent
            return Response(id=request.id, result=['short', i])
        return UNSET if request.id is None else Response(id=request.id, result=['short', i])

    def wrap(r):
        if isinstance(r, Response) and r.is_success:
            return Response(id=r.id, result=['w', i, r.result])
        return r

    if is_async:
        async def mw(request, context, handler):
            enter(request, context)
            if kind in ('S', 'A'):
                r = short(request)
            elif kind == 'Q':
                r = await handler(rewrite(request), context)
            else:
                r = await handler(request, context)
            if kind == 'W':
                r = wrap(r)
            log.append(['mw', i, 'out'])
            return r
    else:
        def mw(request, context, handler):
            enter(request, context)
            if kind in ('S', 'A'):
                r = short(request)
            elif kind == 'Q':
                r = handler(rewrite(request), context)
            else:
                r = handler(request, context)
            if kind == 'W':
                r = wrap(r)
            log.append(['mw', i, 'out'])
            return r
    return mw


def _mk_handler(name, log, ctx, is_async, replace_code=None):
    import pjrpc

    def body(request, context, error):
        log.append(['eh', name, error.code, context is ctx])
        if replace_code is not None:
            return pjrpc.exc.JsonRpcError(code=replace_code, message='replaced')
        return error

    if is_async:
        async def h(request, context, error):
            return body(request, context, error)
    else:
        def h(request, context, error):
            return body(request, context, error)
    return h


def _table(env, kind, log, ctx, is_async):
    """Returns (real table, reference description: generic list, [(key, list)], names carry replacement codes)."""
    def H(name, rc=None):
        return (name, rc, _mk_handler(name, log, ctx, is_async, rc))

    generic, percode = [], []
    rev = kind.endswith('_rev')          # the same table WRITTEN with the per-code keys before the None key
    if rev:
        kind = kind[:-4]
    if kind in ('generic', 'both'):
        generic = [H('g1')]
    if kind in ('percode', 'both'):
        percode = [(env.int('key1'), [H('h1')])]
    if kind == 'two':
        generic = [H('g1'), H('g2')]
        percode = [(env.int('key1'), [H('h1'), H('h2')])]
    if kind == 'replace_generic':
        rc = env.int('rc')
        generic = [H('gR', rc), H('g1')]
        k1, k2 = env.int('key1'), env.int('key2')
        env.assume(k1 != k2)
        percode = [(k1, [H('h1')]), (k2, [H('h2')])]
    if kind == 'replace_percode':
        rc = env.int('rc')
        k1, k2 = env.int('key1'), env.int('key2')
        env.assume(k1 != k2)
        percode = [(k1, [H('hR', rc), H('h1')]), (k2, [H('h2')])]
    pairs = []
    if generic and not rev:
        pairs.append((None, [h[2] for h in generic]))
    for k, hs in percode:
        pairs.append((k, [h[2] for h in hs]))
    if generic and rev:
        pairs.append((None, [h[2] for h in generic]))
    table = {k: v for k, v in pairs}      # comprehension on purpose (symbolic keys)
    return table, generic, percode


def h_chain(ob):
    def run(env):
        import pjrpc
        is_async = ob['disp'] == 'async'
        wire = Wire(env)
        log = []
        ctx = object()
        mws = [_mk_middleware(i, k, log, ctx, is_async) for i, k in enumerate(ob['stack'])]
        table, generic, percode = _table(env, ob['table'], log, ctx, is_async)
        form = ob.get('form')
        mws_arg = {'iter': lambda: iter(mws), 'tuple': lambda: tuple(mws), 'gen': lambda: (m for m in mws)}.get(form, lambda: mws)()
        rig = Rig(env, ob['disp'], wire=wire, middlewares=mws_arg, error_handlers=table, suspend=False)      # event ORDER across batch elements is compared: no interleaving (C10 explores the schedules)
        req = ob['req']
        rid = env.int('rid')

        def el(kind, id_):
            d = {'jsonrpc': '2.0'}
            if kind == 'ok':
                d.update(method='echo', params=[env.int('p')])
            elif kind == 'unknown':
                d.update(method='nosuch', params=[1])
            elif kind == 'nobind':
                d.update(method='two', params={'zz': 1})
            elif kind == 'perr':
                d.update(method='perr', params=[1])
            elif kind == 'perr2':
                d.update(method='perr2', params=[1])
            elif kind == 'boom':
                d.update(method='boom')
            elif kind == 'internal':
                d.update(method='vfail')
            if id_ is not None:
                d['id'] = id_
            return d

        if req in ('ok', 'unknown', 'nobind', 'perr', 'boom', 'internal'):
            elems, doc = [(req, rid)], None
            doc = el(req, rid)
        elif req == 'notif_ok':
            elems = [('ok', None)]
            doc = el('ok', None)
        elif req == 'notif_perr':
            elems = [('perr', None)]
            doc = el('perr', None)
        elif req == 'batch':
            rid2 = env.int('rid2')
            env.assume(rid2 != rid)
            elems = [('ok', rid), ('perr', rid2)]
            doc = [el('ok', rid), el('perr', rid2)]
        elif req == 'notif_batch':
            elems = [('ok', None), ('perr', None)]
            doc = [el('ok', None), el('perr', None)]
        elif req == 'mixed_batch':
            elems = [('perr', None), ('ok', rid)]
            doc = [el('perr', None), el('ok', rid)]
        elif req == 'batch_2fail':
            rid2 = env.int('rid2')
            env.assume(rid2 != rid)
            elems = [('perr', rid), ('perr', rid2)]
            doc = [el('perr', rid), el('perr', rid2)]
        elif req == 'batch_2codes':
            # two failures of the SAME exception class with DIFFERENT codes, one after the other on one dispatcher
            rid2 = env.int('rid2')
            env.assume(rid2 != rid)
            code2 = env.int('perr2.code')
            env.assume(code2 != env.int('perr.code'))

            def perr2(k):
                raise pjrpc.exc.JsonRpcError(code=code2, message='second')
            if is_async:
                async def aperr2(k):
                    perr2(k)
                rig.d.add(aperr2, name='perr2')
            else:
                rig.d.add(perr2, name='perr2')
            elems = [('perr', rid), ('perr2', rid2)] if not ob.get('swap') else [('perr2', rid), ('perr', rid2)]
            doc = [el(k, i) for k, i in elems]
        elif req == 'rejected':
            elems, doc = [], env.int('x')
        else:
            elems, doc = [], []
        try:
            out = rig.dispatch_doc(doc, ctx)
        except Exception as e:
            raise Violation('raised:' + type(e).__name__, doc)
        env.reached()
        # ---- reference interpreter -----------------------------------------------------------------
        want_log, want_resps = [], []
        stack = ob['stack']
        for kind, id_ in elems:
            method = {'ok': 'echo', 'unknown': 'nosuch', 'nobind': 'two', 'perr': 'perr', 'perr2': 'perr2', 'boom': 'boom', 'internal': 'vfail'}[kind]
            depth, rewritten = 0, False
            short = None
            for i, k in enumerate(stack):
                want_log.append(['mw', i, 'in', method, id_, True])
                depth = i + 1
                if k in ('S', 'A'):
                    short = i
                    break
                if k == 'Q':
                    rewritten = True
            if short is not None:
                resp = None if (id_ is None and stack[short] != 'A') else ('result', ['short', short])
            else:
                # core handler
                eff = kind
                if rewritten:
                    # params rewritten to [99]: echo/perr bind, two binds (a=99), boom does not bind, unknown stays unknown
                    eff = {'ok': 'ok99', 'nobind': 'two99', 'boom': 'nobind'}.get(kind, kind)
                if eff in ('ok', 'ok99', 'two99'):
                    val = [env.int('p')] if eff == 'ok' else ([99] if eff == 'ok99' else [99, 5])
                    resp = None if id_ is None else ('result', val)
                else:
                    if eff == 'unknown':
                        code, msg = -32601, 'Method not found'
                    elif eff == 'nobind':
                        code, msg = -32602, 'Invalid params'
                    elif eff == 'boom':
                        code, msg = -32000, 'Server error'
                    elif eff == 'internal':
                        code, msg = -32603, 'Internal error'
                    elif eff == 'perr2':
                        code, msg = env.int('perr2.code'), 'second'
                    else:
                        code, msg = env.int('perr.code'), env.str('perr.msg')
                    raised = code
                    cur = (code, msg)
                    chain = list(generic)
                    for key, hs in percode:
                        if key == raised:
                            chain += hs
                    for name, rc, _ in chain:
                        want_log.append(['eh', name, cur[0], True])
                        if rc is not None:
                            cur = (rc, 'replaced')
                    resp = None if id_ is None else ('error', cur)
            for i in range(depth - 1, -1, -1):
                if stack[i] == 'W' and i != short and resp is not None and resp[0] == 'result':
                    resp = ('result', ['w', i, resp[1]])
                want_log.append(['mw', i, 'out'])
            if resp is not None:
                want_resps.append((id_, resp))
        if not same_json(log, want_log):
            raise Violation('event-log-differs-from-reference', (log, want_log))
        # ---- what is sent --------------------------------------------------------------------------
        if req in ('rejected', 'rejected_batch'):
            if out is None or 'error' not in out[0] or out[0]['error'].get('code') != -32600:
                raise Violation('rejected-document-not-32600', out)
            return ['rejected']
        if not want_resps:
            if out is not None:
                raise Violation('nothing-expected-but-sent', out)
            return ['nothing']
        if out is None:
            raise Violation('response-expected-but-nothing-sent', want_resps)
        docs = out[0] if req in ('batch', 'notif_batch', 'mixed_batch', 'batch_2fail', 'batch_2codes') else [out[0]]
        if not isinstance(docs, list) or len(docs) != len(want_resps):
            raise Violation('sent-shape', (out[0], len(want_resps)))
        for d, (id_, (tag, val)) in zip(docs, want_resps):
            if not same_json(d.get('id', 'missing'), id_):
                raise Violation('sent-id', (d, id_))
            if tag == 'result':
                if 'result' not in d or not same_json(d['result'], val):
                    raise Violation('sent-differs-from-chain-result', (d, val))
            else:
                e = d.get('error')
                if not e or not same_json(e.get('code'), val[0]) or not same_json(e.get('message'), val[1]):
                    raise Violation('sent-error-differs-from-last-handler-result', (d, val))
        return ['sent', len(docs), len(log)]

    return run
