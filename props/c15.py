"""
C15 -- methods are reachable under exactly their registered names, private ones never.

The registration history is the concrete skeleton; the PROBE method name is an unconstrained symbolic string, so for every
history the solver decides, for every string, whether it reaches a method and which one.
"""
from __future__ import annotations

import itertools as it

from vlib.explore import Violation
from vlib.server import run_coro
from vlib.wire import Wire

PROP = 'C15'
MANIFEST = dict(
    text="Symbolic check of MethodRegistry.add / add_methods / view / merge and the dispatcher front-ends: registration histories are concrete skeletons (prefix chains up to 3 registries deep over {None, '', 'a', 'a.b'} with every "
         "single registration form at the innermost level; histories of <= 2 (quick) / <= 3 (thorough) operations over two nested registries incl. re-registration under an existing name, registering one and the same function object / view class again under another name or prefix, and explicit merges), then the registry is attached to the sync or async dispatcher "
         "and probed with a request whose method name is an UNBOUNDED symbolic string. Oracle: reference name map computed from the statement (dot-joined non-empty prefixes + view prefix + explicit or own name; later registration replaces earlier; "
         "views expose public callables only; a function registered on the dispatcher after the attachment does not become callable through the source registries); probe reaches method X iff probe equals a reference name bound to X, otherwise -32601.",
    ref='5 C15',
    note="Method objects handed to add_methods of a *prefixed* registry are not part of the corpus (the statement does not say whether the registry prefix applies to them). Functions are told apart by the value they return.",
)
BOUNDS = {
    'quick': {'chains': 'depth 1..3, prefixes over {None, "", "a", "a.b"}, 12 registration forms (incl. a view with inherited / static / class methods)', 'histories': '<= 2 operations over 13 (operation, registry) pairs', 'probe': 'symbolic string, unbounded'},
    'thorough': {'chains': 'as quick', 'histories': '<= 3 operations', 'probe': 'as quick'},
}
STUBS = ['S1', 'S4', 'S5', 'S13']
OUTSIDE = ['histories longer than the bound', 'Method objects added to prefixed registries']
ASSUMPTIONS = []
BUDGET = {'quick': 40.0, 'thorough': 120.0}

PREFIXES = (None, '', 'a', 'a.b')
FORMS = (('add',), ('addname', '_p'), ('addname', 'a._q'), ('add_',), ('addname', 'a'), ('addname', 'f'), ('addname', 'a.f'), ('addname', ''), ('addfn',), ('addfn2',), ('method',),
         ('view', None), ('view', 'v'), ('view', 'a'), ('viewx', None), ('viewx', 'v'))
HOPS = ('add', 'addname_f', 'addname_g', 'addfn', 'addfn2', 'view', 'viewp', 'dup')
SHOPS = ('sadd', 'saddname', 'saddfn', 'sview', 'sviewp')      # the SAME function / view class registered again


def setup():
    from pjrpc.common import exceptions as ex
    ex.DeserializationError.__str__ = lambda self: 'deserialization error'
    ex.IdentityError.__str__ = lambda self: 'identity error'


def obligations(tier):
    obs = []
    for disp in ('sync', 'async'):
        for depth in (1, 2, 3):
            for prefs in it.product(PREFIXES, repeat=depth):
                for form in FORMS:
                    if form[0] == 'method' and any(prefs):
                        continue
                    if disp == 'async' and depth == 3 and form[0] not in ('add', 'view', 'viewx'):
                        continue
                    obs.append({'h': 'chain', 'disp': disp, 'prefixes': list(prefs), 'form': list(form)})
        maxn = 2 if tier == 'quick' else 3
        steps = [(op, r) for op in HOPS for r in (1, 2)] + [('merge', 0)]
        for n in range(1, maxn + 1):
            for seq in it.product(steps, repeat=n):
                if disp == 'async' and n == 3 and seq[0][1] == 2:
                    continue
                obs.append({'h': 'history', 'disp': disp, 'seq': [list(s) for s in seq]})
        # histories that register one and the same function object / view class more than once (under different names)
        ssteps = [(op, r) for op in SHOPS for r in (1, 2)]
        for seq in it.product(steps + ssteps, repeat=2):
            if sum(1 for op, _ in seq if op in SHOPS) >= (1 if tier != 'quick' else 2) or (seq[0][0] in SHOPS and seq[1][0] == 'merge'):
                obs.append({'h': 'history', 'disp': disp, 'seq': [list(s) for s in seq]})
        if tier != 'quick':
            for seq in it.product(ssteps, repeat=3):
                obs.append({'h': 'history', 'disp': disp, 'seq': [list(s) for s in seq]})
    return obs


def finding_key(ob, label, model):
    return f"{ob['h']}/{label}"


def make(ob):
    return globals()['h_' + ob['h']](ob)


# ---------------------------------------------------------------------------------------------------
def _fn(name, tag, is_async):
    ns = {}
    kw = 'async def' if is_async else 'def'
    exec(f"{kw} {name}():\n    return {tag!r}\n", ns)
    return ns[name]


def _view(tag, is_async):
    import pjrpc.server
    ns = {'ViewMixin': pjrpc.server.ViewMixin}
    kw = 'async def' if is_async else 'def'
    exec(f"class View(ViewMixin):\n    attr = 5\n    {kw} pub(self):\n        return {tag!r}\n"
         f"    {kw} _priv(self):\n        return 'PRIVATE'\n    {kw} __dunder__(self):\n        return 'DUNDER'\n", ns)
    return ns['View']


def _viewx(is_async):
    """A view with an inherited public method, a static method, a class method, a nested class (a public callable: exposed,
    though calling it fails) and private / non-callable members."""
    import pjrpc.server
    ns = {'ViewMixin': pjrpc.server.ViewMixin}
    kw = 'async def' if is_async else 'def'
    exec(f"class Base(ViewMixin):\n    {kw} inh(self):\n        return 'T-inh'\n    {kw} _hidden(self):\n        return 'PRIVATE'\n"
         f"class View(Base):\n    attr = 5\n    data = [1]\n    {kw} pub(self):\n        return 'T-pub'\n"
         f"    @staticmethod\n    {kw} st():\n        return 'T-st'\n    @classmethod\n    {kw} cm(cls):\n        return 'T-cm'\n"
         f"    {kw} _priv(self):\n        return 'PRIVATE'\n", ns)
    return ns['View']


def _join(*parts):
    return '.'.join(p for p in parts if p)


def _probe(env, d, wire, is_async, ref, what):
    probe = env.str('probe')
    doc = {'jsonrpc': '2.0', 'id': 1, 'method': probe}
    try:
        out = d.dispatch(wire.encode(doc))
        if is_async:
            out = run_coro(out)
    except Exception as e:
        raise Violation('raised:' + type(e).__name__, what)
    env.reached()
    rdoc = wire.decode(out[0])
    want = ref.get(probe)
    if want is None:
        if 'error' not in rdoc or rdoc['error'].get('code') != -32601:
            raise Violation('unregistered-name-reached-something', (what, probe, rdoc))
        return ['-32601']
    if rdoc.get('result') != want:
        raise Violation('registered-name-reaches-wrong-or-no-method', (what, probe, rdoc, want))
    return ['reached', want]


def _after_attachment(d, regs, chains, ref, is_async):
    """Registrations made AFTER the attachment. A function registered on the dispatcher is callable there under its own name
    and must not become callable through the source registries (it was not added through them): each source registry is
    attached to a fresh dispatcher and its name set compared. A function registered on a source registry after the merge was
    not added through the dispatcher; the statement does not say whether a merge is a copy or a live link, so the only demand
    is that IF it is callable on the dispatcher, then under the dot-joined prefix chain + own name (`chains[i]`)."""
    import pjrpc.server
    cls = pjrpc.server.AsyncDispatcher if is_async else pjrpc.server.Dispatcher
    d.add(_fn('dlate', 'T-dlate', is_async))
    ref['dlate'] = 'T-dlate'
    for r in regs:
        d2 = cls()
        d2.add_methods(r)
        leaked = [k for k in d2.registry.keys() if k.endswith('dlate')]
        if leaked:
            raise Violation('callable-through-a-registry-it-was-not-added-through', leaked)
    allowed = {}
    for i, r in enumerate(regs):
        r.add(_fn(f'late{i}', f'T-late{i}', is_async))
        allowed[_join(*chains[i], f'late{i}')] = f'T-late{i}'
    keys = set(d.registry.keys())
    if not (set(ref.keys()) <= keys) or not (keys <= set(ref.keys()) | set(allowed.keys())):
        raise Violation('registry-key-set-after-late-registrations', (sorted(keys), sorted(ref.keys()), sorted(allowed.keys())))
    for k, t in allowed.items():
        if k in keys:
            ref[k] = t


def h_chain(ob):
    def run(env):
        import pjrpc.server
        from pjrpc.server import Method, MethodRegistry
        is_async = ob['disp'] == 'async'
        wire = Wire(env)
        prefs = ob['prefixes']
        regs = [MethodRegistry(prefix=p) for p in prefs]       # regs[0] outermost ... regs[-1] innermost
        inner = regs[-1]
        form = ob['form']
        ref = {}
        chain = list(prefs)
        if form[0] == 'add':
            inner.add(_fn('f', 'T-f', is_async))
            ref[_join(*chain, 'f')] = 'T-f'
        elif form[0] == 'add_':          # a plain function whose OWN name starts with an underscore: registered, hence reachable
            inner.add(_fn('_f', 'T-_f', is_async))
            ref[_join(*chain, '_f')] = 'T-_f'
        elif form[0] == 'addname':
            inner.add(_fn('f', 'T-f', is_async), name=form[1])
            ref[_join(*chain, form[1] or 'f')] = 'T-f'
        elif form[0] == 'addfn':
            inner.add_methods(_fn('g', 'T-g', is_async))
            ref[_join(*chain, 'g')] = 'T-g'
        elif form[0] == 'addfn2':
            inner.add_methods(_fn('g', 'T-g', is_async), _fn('k', 'T-k', is_async))
            ref[_join(*chain, 'g')] = 'T-g'
            ref[_join(*chain, 'k')] = 'T-k'
        elif form[0] == 'method':
            inner.add_methods(Method(_fn('g', 'T-g', is_async), name='x.y'))
            ref['x.y'] = 'T-g'
        elif form[0] == 'viewx':
            inner.view(_viewx(is_async), prefix=form[1])
            for nm in ('inh', 'pub', 'st', 'cm'):
                ref[_join(*chain, form[1], nm)] = 'T-' + nm
        else:
            inner.view(_view('T-pub', is_async), prefix=form[1])
            ref[_join(*chain, form[1], 'pub')] = 'T-pub'
        for i in range(len(regs) - 1, 0, -1):
            regs[i - 1].merge(regs[i])
        d = (pjrpc.server.AsyncDispatcher if is_async else pjrpc.server.Dispatcher)(**wire.kwargs())
        d.add_methods(regs[0])
        if set(d.registry.keys()) != set(ref.keys()):
            raise Violation('registry-key-set', (sorted(d.registry.keys()), sorted(ref.keys())))
        _after_attachment(d, regs, [prefs[:i + 1] for i in range(len(regs))], ref, is_async)
        return _probe(env, d, wire, is_async, ref, (prefs, form))

    return run


def h_history(ob):
    def run(env):
        import pjrpc.server
        from pjrpc.server import MethodRegistry
        is_async = ob['disp'] == 'async'
        wire = Wire(env)
        P = {1: 'a', 2: 'b.c'}
        regs = {1: MethodRegistry(prefix=P[1]), 2: MethodRegistry(prefix=P[2])}
        refs = {1: {}, 2: {}}           # reference content of each registry: full name (inside that registry) -> tag
        shared = _fn('shared', 'T-shared', is_async)
        shared_view = _view('T-sv', is_async)
        for n, (op, r) in enumerate(ob['seq']):
            tag = f'T{n}'
            if op == 'merge':
                regs[1].merge(regs[2])
                for name, t in refs[2].items():
                    refs[1][_join(P[1], name)] = t
                continue
            reg, ref, p = regs[r], refs[r], P[r]
            if op == 'add':
                reg.add(_fn('f', tag, is_async))
                ref[_join(p, 'f')] = tag
            elif op == 'dup':
                reg.add(_fn('f', tag, is_async))          # another function with the same own name: replaces
                ref[_join(p, 'f')] = tag
            elif op == 'addname_f':
                reg.add(_fn('h', tag, is_async), name='f')
                ref[_join(p, 'f')] = tag
            elif op == 'addname_g':
                reg.add(_fn('h', tag, is_async), name='g')
                ref[_join(p, 'g')] = tag
            elif op == 'addfn':
                reg.add_methods(_fn('g', tag, is_async))
                ref[_join(p, 'g')] = tag
            elif op == 'addfn2':        # several plain functions handed over in ONE add_methods call
                reg.add_methods(_fn('g', tag, is_async), _fn('k', tag + 'k', is_async), _fn('m', tag + 'm', is_async))
                ref[_join(p, 'g')] = tag
                ref[_join(p, 'k')] = tag + 'k'
                ref[_join(p, 'm')] = tag + 'm'
            elif op == 'view':
                reg.view(_view(tag, is_async))
                ref[_join(p, 'pub')] = tag
            elif op == 'viewp':
                reg.view(_view(tag, is_async), prefix='f')
                ref[_join(p, 'f', 'pub')] = tag
            elif op == 'sadd':
                reg.add(shared)
                ref[_join(p, 'shared')] = 'T-shared'
            elif op == 'saddname':
                reg.add(shared, name='s')
                ref[_join(p, 's')] = 'T-shared'
            elif op == 'saddfn':
                reg.add_methods(shared)
                ref[_join(p, 'shared')] = 'T-shared'
            elif op == 'sview':
                reg.view(shared_view)
                ref[_join(p, 'pub')] = 'T-sv'
            elif op == 'sviewp':
                reg.view(shared_view, prefix='f')
                ref[_join(p, 'f', 'pub')] = 'T-sv'
        # final attachment: R2 into R1, R1 into the dispatcher, plus one direct registration on the dispatcher
        regs[1].merge(regs[2])
        for name, t in refs[2].items():
            refs[1][_join(P[1], name)] = t
        d = (pjrpc.server.AsyncDispatcher if is_async else pjrpc.server.Dispatcher)(**wire.kwargs())
        d.add(_fn('top', 'T-top', is_async))
        d.add_methods(regs[1])
        final = dict(refs[1])
        final.setdefault('top', 'T-top')
        if set(d.registry.keys()) != set(final.keys()):
            raise Violation('registry-key-set', (sorted(d.registry.keys()), sorted(final.keys())))
        _after_attachment(d, [regs[1], regs[2]], [[P[1]], [P[1], P[2]]], final, is_async)
        return _probe(env, d, wire, is_async, final, ob['seq'])

    return run
