"""
C08 -- the client matches responses to requests by id and rejects mismatches.
"""
from __future__ import annotations

import itertools as it

from vlib.client import ClientRig
from vlib.explore import Violation
from vlib.wire import Wire, build, same_json

PROP = 'C08'
MANIFEST = dict(
    text="Symbolic check of the real client (_send, BaseAbstractClient._relate, BaseBatch._relate, BatchResponse.from_json/result) with the transport replaced by a script returning a "
         "response document whose ids / results / error codes are symbolic: for batches of 1..2 (quick) / 1..3 (thorough) calls plus notifications the server array has 0..n+1 elements with symbolic int / string / null ids, "
         "so the solver itself produces every permutation, omission, duplication, addition and type confusion. Reference written from the statement: strict + (duplicate or id set != call id set) -> IdentityError; "
         "non-response body -> DeserializationError; accepted responses are related to the request with the same id and positional / tuple results follow CALL order; errors are raised.",
    ref='5 C08',
    note="Request ids of batches are the concrete ids 1..n of the default sequential generator, 0..n-1 (a falsy id) or the strings '', 'a', ..; the batch request is built by the constructor, by append or by extend onto a non-empty batch, and also sent a second time after a first, well-answered send; response ids are unbounded symbolic ints or strings of length <= 2. "
         "A surplus response with a null id is accepted either way (the statement is silent).",
)
BOUNDS = {
    'quick': {'single': 'id relation {equal, symbolic int, symbolic str(len<=2), null, absent} x {result, error} x strict x sync/async; request id int or str',
              'batch': '1..2 calls (+ optional notification), response arrays of 0..n+1 elements over {ok int id, error int id, ok str id, ok null id}',
              'nonresponse': 'bodies of every non-response JSON kind, objects with neither / both of result and error, wrong version'},
    'thorough': {'single': 'as quick', 'batch': '1..3 calls, arrays 0..n+1 over the 4 element kinds; 4 calls with arrays of 3..5 int-id elements', 'nonresponse': 'as quick'},
}
STUBS = ['S1', 'S4', 'S5', 'S7 scripted transport', 'S13']
OUTSIDE = ['batches of more than 4 calls', 'string request ids in batches']
ASSUMPTIONS = []
BUDGET = {'quick': 40.0, 'thorough': 150.0}
RESP_ELEMS = ('ok_i', 'err_i', 'ok_s', 'ok_n')
# 'err_n' (a null-id ERROR element) is used in targeted obligations only


def setup():
    from pjrpc.common import exceptions as ex
    ex.DeserializationError.__str__ = lambda self: 'deserialization error'
    ex.IdentityError.__str__ = lambda self: 'identity error'


def obligations(tier):
    obs = []
    for kind, strict in it.product(('sync', 'async'), (True, False)):
        for rel, payload, ridt in it.product(('equal', 'int', 'str', 'null', 'absent'), ('result', 'error'), ('i', 's')):
            obs.append({'h': 'single', 'rel': rel, 'payload': payload, 'ridt': ridt, 'strict': strict, 'kind': kind})
        for payload in ('result', 'error'):
            obs.append({'h': 'call', 'payload': payload, 'strict': strict, 'kind': kind})
        for k in ('null', 'bool', 'int', 'float', 'str', 'list0', 'list1', 'dict0', 'neither', 'both', 'badversion', 'noversion', 'boolid', 'boolid_err', 'floatid', 'listid'):
            for batch in (False, True):
                if batch and k == 'list0':
                    continue      # an empty array is a (degenerate) response array: handled by the batch harness
                obs.append({'h': 'nonresponse', 'k': k, 'batch': batch, 'strict': strict, 'kind': kind})
        obs.append({'h': 'batch_error', 'strict': strict, 'kind': kind})
        maxcalls = 2 if tier == 'quick' else 3
        for ncalls in range(1, maxcalls + 1):
            for n in range(0, ncalls + 2):
                for combo in it.product(RESP_ELEMS, repeat=n):
                    if tier == 'quick' and ncalls == 2 and n == 3 and combo.count('ok_i') + combo.count('err_i') < 2:
                        continue
                    if ncalls == 3 and n >= 3 and (combo.count('ok_s') + combo.count('ok_n') > 1):
                        continue
                    for notif in ((False, True) if ncalls == 2 else (False,)):
                        obs.append({'h': 'batch', 'ncalls': ncalls, 'els': list(combo), 'notif': notif, 'strict': strict,
                                    'kind': kind, '_weight': 4 ** n})
                        if n == ncalls and set(combo) <= {'ok_i'} and ncalls <= 2:
                            obs.append({'h': 'batch', 'ncalls': ncalls, 'els': list(combo) + ['err_n'], 'notif': notif, 'strict': strict,
                                        'kind': kind, '_weight': 4 ** n})
                        if ncalls == 2 and n <= 2 and set(combo) <= {'ok_i'} and strict:
                            obs.append({'h': 'batch', 'ncalls': ncalls, 'els': list(combo), 'notif': notif, 'strict': strict,
                                        'kind': kind, 'resend': 1, '_weight': 4 ** n})
                        if n >= ncalls and not notif and n <= 3:
                            # falsy ids among the calls: ids 0..n-1, and string ids '' / 'a'
                            if set(combo) <= {'ok_i', 'err_i'}:
                                obs.append({'h': 'batch', 'ncalls': ncalls, 'els': list(combo), 'notif': notif, 'strict': strict,
                                            'kind': kind, 'idk': 'zero', '_weight': 4 ** n})
                            if set(combo) <= {'ok_s', 'ok_i'} and combo.count('ok_i') <= 1:
                                obs.append({'h': 'batch', 'ncalls': ncalls, 'els': list(combo), 'notif': notif, 'strict': strict,
                                            'kind': kind, 'idk': 'str', '_weight': 4 ** n})
                        if ncalls >= 2 and n == ncalls and set(combo) <= {'ok_i', 'err_i'} and combo.count('err_i') <= 1:
                            # the same batch request built incrementally (append / extend onto a non-empty batch)
                            for build in ('append', 'extend'):
                                obs.append({'h': 'batch', 'ncalls': ncalls, 'els': list(combo), 'notif': notif, 'strict': strict,
                                            'kind': kind, 'build': build, '_weight': 4 ** n})
    if tier == 'thorough':
        for kind, strict in it.product(('sync', 'async'), (True,)):
            for n in range(3, 6):
                for combo in it.product(('ok_i', 'err_i'), repeat=n):
                    if combo.count('err_i') > 1:
                        continue
                    obs.append({'h': 'batch', 'ncalls': 4, 'els': list(combo), 'notif': False, 'strict': strict, 'kind': kind,
                                '_weight': 4 ** n, '_budget': 400.0})
    return obs


def finding_key(ob, label, model):
    return f"{ob['h']}/{label}"


def make(ob):
    return globals()['h_' + ob['h']](ob)


# ---------------------------------------------------------------------------------------------------
def _attempt(fn):
    """Returns ('ok', value) | ('identity', None) | ('deser', None) | ('error', exc)."""
    import pjrpc
    try:
        return 'ok', fn()
    except pjrpc.exc.IdentityError:
        return 'identity', None
    except pjrpc.exc.DeserializationError:
        return 'deser', None
    except pjrpc.exc.JsonRpcError as e:
        return 'error', e
    except Exception as e:
        raise Violation('raised:' + type(e).__name__, repr(e)[:200] if False else type(e).__name__)


def h_single(ob):
    def run(env):
        import pjrpc
        rid = env.int('rid') if ob['ridt'] == 'i' else env.str('srid', 2)
        body = {'jsonrpc': '2.0'}
        rel = ob['rel']
        if rel == 'equal':
            body['id'] = rid
        elif rel == 'int':
            body['id'] = env.int('xid')
        elif rel == 'str':
            body['id'] = env.str('sxid', 2)
        elif rel == 'null':
            body['id'] = None
        if ob['payload'] == 'result':
            body['result'] = env.int('res')
        else:
            body['error'] = {'code': env.int('code'), 'message': env.str('msg', 2)}
        rig = ClientRig(env, ob['kind'], lambda n, doc, notif: body, strict=ob['strict'])
        req = pjrpc.Request('m', [1], id=rid)
        st, resp = _attempt(lambda: rig.do(lambda c: c.send(req)))
        env.reached()
        got_id = body.get('id')
        mismatch = got_id is not None and not same_json(got_id, rid)
        if st in ('deser', 'error'):
            raise Violation('unexpected-' + st, body)
        if ob['strict'] and mismatch:
            if st != 'identity':
                raise Violation('mismatching-id-accepted', (rid, body))
            return ['identity']
        if st == 'identity':
            if ob['strict']:
                raise Violation('identity-error-on-matching-id', (rid, body))
            return ['non-strict-identity']         # the statement only speaks about strict mode
        if resp is None or resp.related is not req:
            raise Violation('response-not-related-to-request', (rid, body))
        if ob['payload'] == 'result':
            if not resp.is_success or not same_json(resp.result, body['result']):
                raise Violation('result-lost', (body, resp))
        else:
            try:
                resp.result
                raise Violation('error-not-raised', body)
            except pjrpc.exc.JsonRpcError as e:
                if e.code != body['error']['code'] or e.message != body['error']['message']:
                    raise Violation('raised-error-differs', (body, e))
        if len(rig.sent) != 1:
            raise Violation('sent-count', rig.sent)
        return ['accepted', ob['payload']]

    return run


def h_call(ob):
    def run(env):
        body = {'jsonrpc': '2.0', 'id': 1}
        if ob['payload'] == 'result':
            body['result'] = env.int('res')
        else:
            body['error'] = {'code': env.int('code'), 'message': env.str('msg', 2), 'data': env.int('data')}
        rig = ClientRig(env, ob['kind'], lambda n, doc, notif: body, strict=ob['strict'])
        st, val = _attempt(lambda: rig.do(lambda c: c.call('m', 1, 2)))
        env.reached()
        if len(rig.sent) != 1 or rig.sent[0].get('id') != 1 or rig.sent[0].get('params') != [1, 2]:
            raise Violation('request-document', rig.sent)
        if ob['payload'] == 'result':
            if st != 'ok' or not same_json(val, body['result']):
                raise Violation('call-result', (st, val))
            return ['result']
        if st != 'error':
            raise Violation('server-error-not-raised', (st, val))
        e = body['error']
        if val.code != e['code'] or val.message != e['message'] or not same_json(val.data, e['data']):
            raise Violation('raised-error-differs', (e, val))
        return ['raised']

    return run


def _bad_body(env, k):
    if k == 'neither':
        return {'jsonrpc': '2.0', 'id': 1}
    if k == 'both':
        return {'jsonrpc': '2.0', 'id': 1, 'result': env.int('res'), 'error': {'code': 1, 'message': 'm'}}
    if k == 'badversion':
        v = env.str('ver', 3)
        env.assume(v != '2.0')
        return {'jsonrpc': v, 'id': 1, 'result': 1}
    if k == 'noversion':
        return {'id': 1, 'result': 1}
    if k in ('boolid', 'floatid', 'listid', 'boolid_err'):
        # an id of the wrong JSON type - in particular true, which Python considers equal to the request id 1
        idv = {'boolid': True, 'boolid_err': True, 'floatid': 1.0, 'listid': [1]}[k]
        if k == 'boolid_err':
            return {'jsonrpc': '2.0', 'id': idv, 'error': {'code': env.int('code'), 'message': 'm'}}
        return {'jsonrpc': '2.0', 'id': idv, 'result': env.int('res')}
    return build(env, k, 'body', 2)


def h_nonresponse(ob):
    def run(env):
        import pjrpc
        body = _bad_body(env, ob['k'])
        if ob['batch'] and ob['k'] in ('neither', 'both', 'badversion', 'noversion', 'boolid', 'floatid', 'listid', 'boolid_err'):
            body = [body]
        from vlib.client import Raw
        wire = Wire(env)
        rig = ClientRig(env, ob['kind'], lambda n, doc, notif: Raw(wire.encode(body)), wire=wire, strict=ob['strict'])
        if ob['batch']:
            br = pjrpc.BatchRequest(pjrpc.Request('m', [1], id=1))
            st, resp = _attempt(lambda: rig.do(lambda c: c.batch.send(br)))
        else:
            st, resp = _attempt(lambda: rig.do(lambda c: c.send(pjrpc.Request('m', [1], id=1))))
        env.reached()
        if st != 'deser':
            raise Violation('non-response-body-not-rejected:' + st, body)
        return ['deser']

    return run


def h_batch_error(ob):
    def run(env):
        import pjrpc
        body = {'jsonrpc': '2.0', 'id': None, 'error': {'code': env.int('code'), 'message': env.str('msg', 2)}}
        rig = ClientRig(env, ob['kind'], lambda n, doc, notif: body, strict=ob['strict'])
        st, val = _attempt(lambda: rig.do(lambda c: c.batch.add('m', 1).add('m', 2).call()))
        env.reached()
        if st != 'error' or val.code != body['error']['code'] or val.message != body['error']['message']:
            raise Violation('batch-level-error-not-raised', (st, val))
        return ['raised']

    return run


def h_batch(ob):
    def run(env):
        import pjrpc
        ncalls = ob['ncalls']
        # call ids: 1..n (default), 0..n-1 ('zero': a falsy id among them) or the strings '', 'a', 'b', .. ('str')
        idk = ob.get('idk')
        call_ids = {None: list(range(1, ncalls + 1)), 'zero': list(range(0, ncalls)), 'str': ['', 'a', 'b', 'c'][:ncalls]}[idk]
        ctag = 's' if idk == 'str' else 'i'
        reqs = [pjrpc.Request('m', [i], id=cid) for i, cid in enumerate(call_ids, 1)]
        if ob['notif']:
            reqs.insert(1, pjrpc.Request('n', [0]))
        if ob.get('build') == 'append':
            br = pjrpc.BatchRequest()
            for q in reqs:
                br.append(q)
        elif ob.get('build') == 'extend':
            br = pjrpc.BatchRequest(reqs[0])
            br.extend(reqs[1:])
        else:
            br = pjrpc.BatchRequest(*reqs)
        body, tags = [], []
        for j, k in enumerate(ob['els']):
            if k == 'ok_i':
                body.append({'jsonrpc': '2.0', 'id': env.int(f'id{j}'), 'result': env.int(f'r{j}')})
                tags.append('i')
            elif k == 'err_i':
                body.append({'jsonrpc': '2.0', 'id': env.int(f'id{j}'), 'error': {'code': 100 + j, 'message': 'e'}})
                tags.append('i')
            elif k == 'ok_s':
                body.append({'jsonrpc': '2.0', 'id': env.str(f'sid{j}', 2), 'result': env.int(f'r{j}')})
                tags.append('s')
            elif k == 'err_n':
                body.append({'jsonrpc': '2.0', 'id': None, 'error': {'code': 300 + j, 'message': 'unattributed'}})
                tags.append('n')
            else:
                body.append({'jsonrpc': '2.0', 'id': None, 'result': env.int(f'r{j}')})
                tags.append('n')
        if ob.get('resend'):
            # the SAME batch request object is sent twice: first answered completely and in order, then with `body`
            good = [{'jsonrpc': '2.0', 'id': c, 'result': 0} for c in call_ids]
            rig = ClientRig(env, ob['kind'], lambda n, doc, notif: good if n == 0 else body, strict=ob['strict'])
            st0, _ = _attempt(lambda: rig.do(lambda c: c.batch.send(br)))
            if st0 != 'ok':
                raise Violation('first-send-of-a-well-answered-batch-failed:' + st0, good)
        else:
            rig = ClientRig(env, ob['kind'], lambda n, doc, notif: body, strict=ob['strict'])
        st, resp = _attempt(lambda: rig.do(lambda c: c.batch.send(br)))
        env.reached()
        if st in ('deser', 'error'):
            raise Violation('unexpected-' + st, body)
        nonnull = [(t, r['id']) for t, r in zip(tags, body) if t != 'n']
        dup = any(t1 == t2 and v1 == v2 for (i, (t1, v1)) in enumerate(nonnull) for (t2, v2) in nonnull[i + 1:])
        int_ids = [v for t, v in nonnull if t == ctag]
        covers = all(any(v == c for v in int_ids) for c in call_ids)
        surplus = any(t != ctag for t, _ in nonnull) or any(all(v != c for c in call_ids) for v in int_ids)
        has_null = any(t == 'n' for t in tags)
        if not ob['strict']:
            if st == 'identity':
                return ['non-strict-identity']     # the statement only speaks about strict mode
            _check_related(resp, reqs, body, tags)
            return ['non-strict']
        must_reject = dup or not covers or surplus
        if must_reject:
            if st != 'identity':
                raise Violation('mismatching-batch-accepted', (call_ids, body))
            return ['identity']
        if st == 'identity':
            if has_null:
                return ['identity-null-extra']    # statement silent about surplus null-id responses
            raise Violation('identity-error-on-matching-batch', (call_ids, body))
        # accepted: exactly one response per call (plus possibly null-id extras)
        _check_related(resp, reqs, body, tags)
        by_id = {}
        for r in body:
            if r['id'] is not None:
                by_id[r['id']] = r
        errs = [by_id[c]['error']['code'] for c in call_ids if 'error' in by_id[c]]
        if 'err_n' in ob['els']:
            # the statement is silent on whether a surplus null-id response is accepted; but once accepted, a server ERROR it
            # carries must not vanish: it is kept in the response and raised when the results are read
            if len([r for r in resp if r.id is None and r.is_error]) != ob['els'].count('err_n'):
                raise Violation('null-id-error-response-dropped', body)
            errs = errs + [r['error']['code'] for r in body if r['id'] is None and 'error' in r]
        try:
            tup = resp.result
            if errs:
                raise Violation('error-response-not-raised', body)
        except pjrpc.exc.JsonRpcError as e:
            if not errs or all(e.code != c for c in errs):
                raise Violation('raised-error-not-from-batch', (body, e))
            return ['accepted-raised']
        if has_null:
            return ['accepted-null-extra']
        want = [by_id[c]['result'] for c in call_ids]
        if not same_json(list(tup), want):
            raise Violation('results-not-in-call-order', (call_ids, body, tup))
        if [r.id for r in resp] != call_ids:
            raise Violation('positions-not-in-call-order', (call_ids, [r.id for r in resp]))
        return ['accepted', len(tup)]

    return run


def _check_related(resp, reqs, body, tags):
    """Every response whose id equals a call id must be linked to that request (first occurrence per id)."""
    if resp is None:
        raise Violation('no-response-object')
    for r in resp:
        if r.related is not None:
            if r.related.id is None or not same_json(r.related.id, r.id):
                raise Violation('related-to-wrong-request', (r.id, r.related.id))
    for q in reqs:
        if q.id is None:
            continue
        matching = [r for r in resp if r.id is not None and same_json(r.id, q.id)]
        if matching and not any(r.related is q for r in matching):
            raise Violation('response-not-related', q.id)
