"""
C16 -- generated OpenAPI / OpenRPC documents are closed, complete and pure (partially applicable).
"""
from __future__ import annotations

import copy
import itertools as it
import json
import os

from vlib.explore import Violation
from vlib.wire import normalise, same_json

PROP = 'C16'
MANIFEST = dict(
    text="Symbolic check of the real OpenAPI.schema / OpenRPC.schema generators: method sets of 1..2 (quick) / 1..3 (thorough) methods, annotation combinations (errors incl. a list SHARED between methods, tags, examples, summary / description, deprecated, servers, "
         "component prefix), one endpoint or two endpoint prefixes serving different methods under the same name, extractor stacks {Base, Docstring, Base+Docstring, Pydantic (concrete types only)}, endpoint prefix, 2 repeated generations; annotation STRINGS (summaries, descriptions, tag names, server urls, example names, OpenRPC error messages: a concrete per-method prefix + a symbolic suffix of length <= 1) "
         "and OpenRPC error codes (unbounded ints) are symbolic. Decided for all leaf values: generation does not raise; repeated generation yields the identical document; the user's objects (annotation lists incl. shared ones, method metadata) are deep-equal before/after; "
         "every registered method appears exactly once under '<path>#<name>' / name; what is annotated on one method does not occur in another method's entry; every $ref under #/components/schemas resolves; no UNSET survives and the document passes the specs JSON encoder.",
    ref='5 C16',
    note="NOT decided by the solver (stated as such): validity against the official meta-schemas - each explored path's concrete witness document is validated with jsonschema against tests/server/resources/{oas-3.1-meta.yaml, openrpc-1.3.2.json} in the plain interpreter; "
         "executing a 30 kB meta-schema symbolically, and the content of schemas produced by the compiled pydantic_core, are out of reach.",
)
BOUNDS = {
    'quick': {'methods': '1..2', 'annotations': '9 kinds for one method; 16 pairs for two methods (5 with the Pydantic extractor)', 'extractors': 'Base, Docstring, Base+Docstring, Pydantic', 'repetitions': 2},
    'thorough': {'methods': '1..3', 'annotations': 'full product for 2 methods, thinned for 3', 'extractors': 'as quick', 'repetitions': 3},
}
STUBS = ['S5', 'S13']
OUTSIDE = ['meta-schema validity as a for-all statement', 'schema content produced by pydantic_core', 'OpenAPI 3.0 dialect (the generator emits 3.1)']
ASSUMPTIONS = ['annotation strings carry a concrete per-method prefix followed by an arbitrary symbolic suffix']
BUDGET = {'quick': 60.0, 'thorough': 200.0}

ANNOT = ('none', 'shared_errors', 'own_errors', 'tags', 'examples', 'text', 'deprecated', 'servers', 'prefix')
STACKS = ('base', 'doc', 'base+doc', 'pydantic')
QUICK_PAIRS = (('shared_errors', 'shared_errors'), ('shared_errors', 'none'), ('text', 'tags'), ('prefix', 'own_errors'), ('own_errors', 'prefix'),
               ('none', 'shared_errors'), ('shared_errors', 'text'), ('own_errors', 'shared_errors'), ('own_errors', 'none'), ('tags', 'text'),
               ('examples', 'servers'), ('servers', 'text'), ('deprecated', 'shared_errors'), ('text', 'examples'), ('prefix', 'prefix'), ('tags', 'tags'))
_META = {}


def setup():
    import pjrpc
    from pjrpc.common import exceptions as ex
    ex.DeserializationError.__str__ = lambda self: 'deserialization error'
    ex.IdentityError.__str__ = lambda self: 'identity error'
    if 'VerifSpecErrA' not in globals():
        class VerifSpecErrA(pjrpc.exc.JsonRpcError):
            code = 4001
            message = 'spec error A'

        class VerifSpecErrB(pjrpc.exc.JsonRpcError):
            code = 4002
            message = 'spec error B'
        globals()['VerifSpecErrA'] = VerifSpecErrA
        globals()['VerifSpecErrB'] = VerifSpecErrB


def obligations(tier):
    obs = []
    for kind, stack in it.product(('openapi', 'openrpc'), STACKS):
        if kind == 'openrpc' and stack == 'base+doc':
            continue            # OpenRPC takes a single extractor
        for a in ANNOT:
            obs.append({'h': 'gen', 'kind': kind, 'stack': stack, 'ann': [a], 'prefix': '/api'})
        for a, b in it.product(ANNOT, repeat=2):
            if tier == 'quick' and (a, b) not in QUICK_PAIRS:
                continue
            if tier == 'quick' and stack == 'pydantic' and (a, b) not in QUICK_PAIRS[:5]:
                continue
            obs.append({'h': 'gen', 'kind': kind, 'stack': stack, 'ann': [a, b], 'prefix': '/api' if a != 'prefix' else ''})
        # explicit parameter / result schemas handed over by the user, own and shared between two methods
        for anns in (['explicit'], ['explicit', 'none'], ['shared_explicit', 'shared_explicit'], ['none', 'explicit'], ['examples_null'], ['examples_null', 'examples']):
            obs.append({'h': 'gen', 'kind': kind, 'stack': stack, 'ann': anns, 'prefix': '/api'})
        if stack in ('doc', 'base+doc'):
            # docstring sections that leave things out: no type, empty description, summary only
            for docform, a in it.product(('untyped', 'nodesc', 'summary'), ('none', 'text')):
                obs.append({'h': 'gen', 'kind': kind, 'stack': stack, 'ann': [a], 'prefix': '/api', 'docform': docform})
        if kind == 'openapi':
            # two endpoint prefixes serving DIFFERENT methods under the SAME exposed name
            for a, b in (('text', 'tags'), ('own_errors', 'none'), ('none', 'shared_errors'), ('examples', 'text'), ('tags', 'tags')):
                obs.append({'h': 'gen', 'kind': kind, 'stack': stack, 'ann': [a, b], 'prefix': '/api', 'multi': True})
        if tier == 'thorough':
            for a, b, c in it.product(('shared_errors', 'text', 'tags'), ('shared_errors', 'own_errors', 'none'), ('examples', 'prefix', 'shared_errors')):
                obs.append({'h': 'gen', 'kind': kind, 'stack': stack, 'ann': [a, b, c], 'prefix': '/api', 'reps': 3})
    return obs


def finding_key(ob, label, model):
    return f"gen/{ob['kind']}/{ob['stack']}/{label}"


def make(ob):
    return globals()['h_' + ob['h']](ob)


# ---------------------------------------------------------------------------------------------------
def _meta_schemas():
    if not _META:
        import yaml
        res = os.path.join(os.environ.get('VERIF_REPO', '/repo'), 'tests', 'server', 'resources')
        with open(os.path.join(res, 'oas-3.1-meta.yaml')) as f:
            _META['openapi'] = yaml.unsafe_load(f)
        with open(os.path.join(res, 'openrpc-1.3.2.json')) as f:
            _META['openrpc'] = json.load(f)
    return _META


def _mk_method(i, with_doc, typed, docform=None):
    ns = {}
    if with_doc and docform == 'untyped':       # entries that state no type
        doc = (f'    """\n    Method {i} summary.\n\n    Long description {i}.\n\n    :param a: first\n    :param string b: second\n'
               f'    :returns: result\n    """\n')
    elif with_doc and docform == 'nodesc':      # entries with an empty description
        doc = (f'    """\n    Method {i} summary.\n\n    :param integer a:\n    :param string b: second\n'
               f'    :returns:\n    :rtype: integer\n    """\n')
    elif with_doc and docform == 'summary':     # a docstring with a summary line only
        doc = f'    """Method {i} summary."""\n'
    else:
      doc = (f'    """\n    Method {i} summary.\n\n    Long description {i}.\n\n    :param integer a: first\n    :param string b: second\n'
           f'    :returns: result\n    :rtype: integer\n    :raises MethodNotFoundError: never\n    """\n') if with_doc else ''
    sig = 'a: int, b: str = "x"' if typed else 'a, b="x"'
    ret = ' -> int' if typed else ''
    exec(f"def method{i}({sig}){ret}:\n{doc}    return 1\n", ns)
    return ns[f'method{i}']


def _strings(v, acc):
    if isinstance(v, str):
        acc.append(v)
    elif isinstance(v, dict):
        for k, x in v.items():
            _strings(k, acc)
            _strings(x, acc)
    elif isinstance(v, (list, tuple)):
        for x in v:
            _strings(x, acc)
    return acc


def _refs(v, acc):
    if isinstance(v, dict):
        for k, x in v.items():
            if k == '$ref' and isinstance(x, str):
                acc.append(x)
            else:
                _refs(x, acc)
    elif isinstance(v, (list, tuple)):
        for x in v:
            _refs(x, acc)
    return acc


def _has_unset(v):
    from pjrpc.common import UnsetType
    if isinstance(v, UnsetType):
        return True
    if isinstance(v, dict):
        return any(_has_unset(k) or _has_unset(x) for k, x in v.items())
    if isinstance(v, (list, tuple)):
        return any(_has_unset(x) for x in v)
    return False


def h_gen(ob):
    def run(env):
        import pjrpc.server
        from pjrpc.server import specs
        from pjrpc.server.specs import extractors, openapi, openrpc
        from pjrpc.server.specs.extractors import docstring as dex
        from pjrpc.server.specs.extractors import pydantic as pex
        kind, stack = ob['kind'], ob['stack']
        mod = openapi if kind == 'openapi' else openrpc
        with_doc = 'doc' in stack
        # ---- user objects --------------------------------------------------------------------------
        shared = [VerifSpecErrA] if kind == 'openapi' else [openrpc.Error(code=env.int('shared.code'), message='shared:' + env.str('shared.msg', 1))]  # noqa: F821
        user_objects = {'shared': shared}
        markers = {}

        def marker(i, name):
            # concrete, distinctive prefix (never part of the generators' own vocabulary) + arbitrary symbolic content
            return f'\u2603{i}\u2603' + env.str(name, 1)

        reg = pjrpc.server.MethodRegistry()
        regs = []
        for i, a in enumerate(ob['ann']):
            fn = _mk_method(0 if ob.get('multi') else i, with_doc, typed=(stack == 'pydantic'), docform=ob.get('docform'))
            kw = {}
            mk = []
            if a == 'shared_errors':
                kw['errors'] = shared
            elif a == 'own_errors':
                own = [VerifSpecErrB] if kind == 'openapi' else [openrpc.Error(code=env.int(f'own{i}.code'), message='own')]  # noqa: F821
                kw['errors'] = own
                user_objects[f'own{i}'] = own
                if kind == 'openrpc':
                    own[0].message = marker(i, f'own{i}.msg')
                    mk.append(own[0].message)
            elif a == 'tags':
                t = marker(i, f'tag{i}')
                tags = [mod.Tag(name=t)]
                kw['tags'] = tags
                user_objects[f'tags{i}'] = tags
                mk.append(t)
            elif a == 'examples_null':
                # an example whose documented VALUE is null (a method returning None / an optional parameter)
                nm = f'\u2603{i}\u2603nullexample'
                if kind == 'openapi':
                    ex = [openapi.MethodExample(params={'a': None}, result=None, version='2.0', summary=nm)]
                else:
                    ex = [openrpc.MethodExample(name=nm, params=[openrpc.ExampleObject(value=None, name='a')],
                                                result=openrpc.ExampleObject(value=None, name='result'))]
                kw['examples'] = ex
                user_objects[f'examples{i}'] = ex
                mk.append(nm)
            elif a == 'examples':
                # OpenAPI uses the example summary as a dict key (a symbolic key would be realised): concrete there
                nm = marker(i, f'ex{i}') if kind == 'openrpc' else f'\u2603{i}\u2603example'
                if kind == 'openapi':
                    ex = [openapi.MethodExample(params={'a': 1}, result=2, version='2.0', summary=nm)]
                else:
                    ex = [openrpc.MethodExample(name=nm, params=[openrpc.ExampleObject(value=1, name='a')],
                                                result=openrpc.ExampleObject(value=2, name='result'))]
                kw['examples'] = ex
                user_objects[f'examples{i}'] = ex
                mk.append(nm)
            elif a == 'text':
                s, dsc = marker(i, f'sum{i}'), marker(i, f'desc{i}')
                kw['summary'], kw['description'] = s, dsc
                mk += [s, dsc]
            elif a == 'deprecated':
                kw['deprecated'] = env.bool(f'dep{i}')
            elif a == 'servers':
                u = marker(i, f'url{i}')
                srv = [openapi.Server(url=u)] if kind == 'openapi' else [openrpc.Server(name='s', url=u)]
                kw['servers'] = srv
                user_objects[f'servers{i}'] = srv
                mk.append(u)
            elif a in ('explicit', 'shared_explicit'):
                # explicit schemas handed over by the user (own objects, or ONE list of descriptors shared by several methods)
                if kind == 'openrpc':
                    if a == 'shared_explicit' and 'shared_explicit' in user_objects:
                        ps = user_objects['shared_explicit']
                    else:
                        ps = [openrpc.ContentDescriptor(name='a', schema={'type': 'integer'}),
                              openrpc.ContentDescriptor(name='b', schema={'type': 'string'})]
                        user_objects['shared_explicit' if a == 'shared_explicit' else f'explicit{i}'] = ps
                    kw['params_schema'] = ps
                    rs = openrpc.ContentDescriptor(name='result', schema={'type': 'integer'})
                    kw['result_schema'] = rs
                    user_objects[f'explicit_result{i}'] = [rs]
                else:
                    if a == 'shared_explicit' and 'shared_explicit' in user_objects:
                        ps = user_objects['shared_explicit'][0]
                    else:
                        ps = {'a': {'type': 'integer'}, 'b': {'type': 'string'}}
                        user_objects['shared_explicit' if a == 'shared_explicit' else f'explicit{i}'] = [ps]
                    kw['params_schema'] = ps
                    rs = {'type': 'integer'}
                    kw['result_schema'] = rs
                    user_objects[f'explicit_result{i}'] = [rs]
            elif a == 'prefix' and kind == 'openapi':
                # prefixes that are LEADING SUBSTRINGS of generated component names (MethodNParameters, JsonRpcRequest_...)
                kw['component_name_prefix'] = ('Method', 'Json', 'Pfx')[i % 3]
            if kw:
                fn = mod.annotate(**kw)(fn)
            if ob.get('multi'):
                regs.append(pjrpc.server.MethodRegistry())
                regs[-1].add(fn)                 # every endpoint has its own 'method0'
            else:
                reg.add(fn)
            markers[i] = [m for m in mk]
        if ob.get('multi'):
            methods = [list(r.values())[0] for r in regs]
            methods_map = {f'/v{i}': [m] for i, m in enumerate(methods)}
        else:
            methods = list(reg.values())
            methods_map = {'': methods}
        snap_users = copy.deepcopy(user_objects)
        snap_meta = [copy.deepcopy(getattr(m.method, '__pjrpc_meta__', {}).get(f'{kind}_spec')) for m in methods]
        # ---- generator ------------------------------------------------------------------------------
        if stack == 'base':
            exs = [extractors.BaseSchemaExtractor()]
        elif stack == 'doc':
            exs = [dex.DocstringSchemaExtractor()]
        elif stack == 'base+doc':
            exs = [extractors.BaseSchemaExtractor(), dex.DocstringSchemaExtractor()]
        else:
            exs = [pex.PydanticSchemaExtractor()]
        def new_spec():
            if kind == 'openapi':
                return openapi.OpenAPI(info=openapi.Info(title='t', version='1'), schema_extractors=exs)
            return openrpc.OpenRPC(info=openrpc.Info(title='t', version='1'), schema_extractor=exs[0])

        spec = new_spec()
        docs = []
        try:
            for _ in range(ob.get('reps', 2)):
                docs.append(spec.schema(ob['prefix'], methods_map))
        except Exception as e:
            raise Violation('generation-raised:' + type(e).__name__, (ob['ann'], len(docs)))
        env.reached()
        doc = docs[0]
        # pure function of the registry: the same generator object asked for ANOTHER method set / path must answer
        # exactly as a fresh generator object does (nothing of the earlier generations may stick)
        try:
            other_used = spec.schema('/other', {'': methods[:1]})
            other_fresh = new_spec().schema('/other', {'': methods[:1]})
        except Exception as e:
            raise Violation('generation-raised:' + type(e).__name__, (ob['ann'], 'other'))
        if not _doc_equal(other_used, other_fresh):
            raise Violation('generation-depends-on-earlier-generations', ob['ann'])
        # purity
        for n, d2 in enumerate(docs[1:]):
            if not _doc_equal(d2, doc):
                raise Violation('repeated-generation-differs', (ob['ann'], n + 2))
        if not _user_equal(user_objects, snap_users):
            raise Violation('user-object-modified', {k: (len(v), len(snap_users[k])) for k, v in user_objects.items()})
        for m, before in zip(methods, snap_meta):
            now = getattr(m.method, '__pjrpc_meta__', {}).get(f'{kind}_spec')
            if not _meta_equal(now, before):
                raise Violation('method-annotations-modified', m.name)
        # completeness
        names = [m.name for m in methods]
        if kind == 'openapi':
            keys = list(doc.get('paths', {}).keys())
            if ob.get('multi'):
                want = [f"{ob['prefix']}/v{i}#{n}" for i, n in enumerate(names)]
            else:
                want = [f"{ob['prefix']}#{n}" for n in names]
            if sorted(keys) != sorted(want):
                raise Violation('methods-not-described-exactly-once', (keys, want))
            entries = {i: doc['paths'][w] for i, w in enumerate(want)}
            # what was annotated on a method must show up in ITS entry (summary / description / tags / example name)
            for i, ms in markers.items():
                blob = _strings(entries[i], [])
                for mkr in ms:
                    pref = f'\u2603{i}\u2603'
                    if not any(x.startswith(pref) for x in blob):
                        raise Violation('own-annotation-missing-from-entry', (ob['ann'], i))
        else:
            listed = [m['name'] for m in doc.get('methods', [])]
            if sorted(listed) != sorted(names):
                raise Violation('methods-not-described-exactly-once', (listed, names))
            entries = {i: [m for m in doc['methods'] if m['name'] == n][0] for i, n in enumerate(names)}
        # isolation between methods
        for i, ms in markers.items():
            for j, entry in entries.items():
                if i == j:
                    continue
                if not ms:
                    continue
                pref = f'\u2603{i}\u2603'
                for s in _strings(entry, []):
                    if s.startswith(pref):
                        raise Violation('annotation-of-one-method-in-another-entry', (ob['ann'], i, j))
        # errors documented for a method = its own annotation (+ what its own docstring declares)
        _check_error_isolation(ob, kind, with_doc, entries, doc)
        # closure
        comps = (doc.get('components') or {}).get('schemas') or {}
        for r in _refs(doc, []):
            if r.startswith('#/components/schemas/') and r[len('#/components/schemas/'):] not in comps:
                raise Violation('dangling-ref', r)
        if _has_unset(doc):
            raise Violation('unset-in-document')
        try:
            plain = normalise(doc, specs.JSONEncoder().default)
        except TypeError as e:
            raise Violation('document-not-json-encodable', str(type(e)))
        if env.real:
            # concrete witness only (not a solver result): official meta-schema
            import jsonschema
            text = json.dumps(doc, cls=specs.JSONEncoder)
            try:
                jsonschema.validate(json.loads(text), _meta_schemas()[kind])
            except jsonschema.ValidationError as e:
                raise Violation('meta-schema-validation-failed', e.message[:300])
        return [kind, len(entries)]

    return run


def _entry_error_codes(kind, entry):
    if kind == 'openrpc':
        return [e['code'] for e in entry.get('errors', [])]
    # openapi: error classes show up as '**<code>** <message>' descriptions / const codes: collect integers under "const"
    found = []

    def walk(v):
        if isinstance(v, dict):
            for k, x in v.items():
                if k in ('const', 'enum') and isinstance(x, (int, list)):
                    for c in (x if isinstance(x, list) else [x]):
                        if isinstance(c, int) and not isinstance(c, bool):
                            found.append(c)
                walk(x)
        elif isinstance(v, (list, tuple)):
            for x in v:
                walk(x)
    walk(entry)
    strs = _strings(entry, [])
    for s in strs:
        for code in (4001, 4002, -32601):
            if f'**{code}**' in s or f'{code}' == s:
                found.append(code)
    return found


def _check_error_isolation(ob, kind, with_doc, entries, doc):
    """A method annotated with no errors must not list another method's annotated errors (4001 / 4002 / symbolic);
    a method annotated with errors documents exactly its own (OpenAPI, when an extractor renders error schemas)."""
    # (the base extractor renders no error schemas, and put first in a stack it masks the docstring extractor)
    if kind == 'openapi' and ob['stack'] in ('doc', 'pydantic'):
        for i, a in enumerate(ob['ann']):
            declared = {'shared_errors': {4001}, 'own_errors': {4002}}.get(a, set())
            found = {c for c in _entry_error_codes(kind, _resolve(entries[i], doc)) if c in (4001, 4002)}
            if found != declared:
                raise Violation('documented-errors-differ-from-declared', (ob['ann'], i, sorted(found), sorted(declared)))
    for i, a in enumerate(ob['ann']):
        if a in ('shared_errors', 'own_errors'):
            continue
        others = [b for j, b in enumerate(ob['ann']) if j != i and b in ('shared_errors', 'own_errors')]
        if not others:
            continue
        if kind == 'openrpc':
            codes = _entry_error_codes(kind, entries[i])
            allowed = [-32601] if with_doc else []
            for c in codes:
                if all(c != x for x in allowed):
                    raise Violation('errors-of-one-method-in-another-entry', (ob['ann'], i))
        else:
            blob = _strings(_resolve(entries[i], doc), [])
            for s in blob:
                if '4001' in s or '4002' in s or 'VerifSpecErr' in s:
                    raise Violation('errors-of-one-method-in-another-entry', (ob['ann'], i))


def _resolve(entry, doc, depth=0):
    """Entry with the referenced component schemas inlined (one level is enough for the error models)."""
    comps = (doc.get('components') or {}).get('schemas') or {}
    out = [entry]
    for r in _refs(entry, []):
        name = r[len('#/components/schemas/'):] if r.startswith('#/components/schemas/') else None
        if name in comps:
            out.append({name: comps[name]})
            for r2 in _refs(comps[name], []):
                n2 = r2[len('#/components/schemas/'):] if r2.startswith('#/components/schemas/') else None
                if n2 in comps:
                    out.append({n2: comps[n2]})
    return out


def _doc_equal(a, b):
    from pjrpc.common import UnsetType
    if isinstance(a, UnsetType) or isinstance(b, UnsetType):
        return isinstance(a, UnsetType) and isinstance(b, UnsetType)
    if isinstance(a, dict) and isinstance(b, dict):
        return list(a.keys()) == list(b.keys()) and all(_doc_equal(a[k], b[k]) for k in a)
    if isinstance(a, (list, tuple)) and isinstance(b, (list, tuple)):
        return len(a) == len(b) and all(_doc_equal(x, y) for x, y in zip(a, b))
    if type(a) is not type(b) and not (isinstance(a, (int, str, bool)) and isinstance(b, (int, str, bool))):
        return a == b
    return a == b


def _user_equal(now, before):
    for k in before:
        if len(now[k]) != len(before[k]):
            return False
        for x, y in zip(now[k], before[k]):
            if x != y:
                return False
    return True


def _meta_equal(now, before):
    if now is None or before is None:
        return now is None and before is None
    if set(now.keys()) != set(before.keys()):
        return False
    for k in before:
        a, b = now[k], before[k]
        if isinstance(b, list):
            if not isinstance(a, list) or len(a) != len(b) or any(x != y for x, y in zip(a, b)):
                return False
        elif a != b and not (a is b):
            return False
    return True
