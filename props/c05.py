"""
C05 -- messages survive the wire: serialise -> JSON (value level; text on the witness) -> deserialise is lossless,
the wire form is exact, errors deserialise to the class registered for their code.
"""
from __future__ import annotations

import itertools as it
import json

from vlib.explore import Violation
from vlib.wire import build, normalise, same_json

PROP = 'C05'
PARAM_SHAPES = ('none', 'tuple0', 'list0', 'dict0', 'list1', 'list2', 'tuple1', 'dict1', 'dict2', 'nested')
ID_SHAPES = ('none', 'int', 'str')
RESULT_KINDS = ('null', 'bool', 'int', 'float', 'str', 'list0', 'list1', 'dict0', 'dict1', 'nest')
DATA_KINDS = ('absent',) + RESULT_KINDS
ERR_SHAPES = ('generic', 'typed_default', 'typed_msg', 'typed_code', 'custom', 'custom_zero')

MANIFEST = dict(
    text="Symbolic round-trip check of the real to_json / JSONEncoder.default / from_json code: messages are constructed from concrete shapes (params / id / result / error / batch composition) "
         "with symbolic leaves (method name, ids, codes, messages, payload scalars); the solver explores every branch incl. falsy values, registered vs unregistered codes (dict look-up on a symbolic code). "
         "Oracle: wire exactness (jsonrpc, id iff call, params iff non-empty, exactly one of result/error, null result and null data kept), field equality after from_json, to_json fix-point, "
         "error class == class registered for the code else the supplied base class (also inside batches); batches grown by append / extend after an earlier serialisation serialise as they are now; deserialised requests are independent objects (editing the parameters of one in place does not show up in the next one deserialised).",
    ref='5 C05',
    note="value<->text is the stdlib json: exercised on each path's concrete witness through the real json.dumps(cls=JSONEncoder)/json.loads, not decided by the solver. "
         "Payload nesting depth <= 3, batches <= 2 (quick) / 3 (thorough).",
)
BOUNDS = {
    'quick': {'request': '9 params shapes x 3 id shapes, symbolic method/id/leaves', 'response': '9 result kinds x 3 id shapes; errors: 6 constructions (incl. user classes registered for codes 0, -7, 2001) x 10 data kinds x 2 base classes',
              'batch': '0..2 elements over {call int id, call str id (len<=2), notification} / {ok, error, null id}; batch-level error'},
    'thorough': {'request': 'as quick', 'response': 'as quick', 'batch': '0..3 elements'},
}
STUBS = ['S4', 'S5', 'S13']
OUTSIDE = ['escapes / control / astral characters at the text level (stdlib json; witness only)', 'payload nesting deeper than 3']
ASSUMPTIONS = ['params compared modulo "no parameters": None, (), [], {} share one wire form (no params member)']
BUDGET = {'quick': 40.0, 'thorough': 120.0}


def setup():
    import pjrpc
    from pjrpc.common import exceptions as ex
    ex.DeserializationError.__str__ = lambda self: 'deserialization error'
    ex.IdentityError.__str__ = lambda self: 'identity error'
    if 'VerifCustomError' not in globals():
        class VerifCustomError(pjrpc.exc.JsonRpcError):
            code = 2001
            message = 'custom error'

        class VerifBase(pjrpc.exc.JsonRpcError):
            pass

        class VerifZeroError(pjrpc.exc.JsonRpcError):      # a user error class with the falsy code 0
            code = 0
            message = 'zero'

        class VerifNegError(pjrpc.exc.ClientError):
            code = -7
            message = 'neg'

        globals()['VerifCustomError'] = VerifCustomError
        globals()['VerifBase'] = VerifBase
        globals()['VerifZeroError'] = VerifZeroError
        globals()['VerifNegError'] = VerifNegError


def obligations(tier):
    obs = []
    for ps, ids in it.product(PARAM_SHAPES, ID_SHAPES):
        obs.append({'h': 'request', 'params': ps, 'id': ids})
    for rk, ids in it.product(RESULT_KINDS, ID_SHAPES):
        obs.append({'h': 'response_ok', 'result': rk, 'id': ids})
    for es, dk, base in it.product(ERR_SHAPES, DATA_KINDS, ('JsonRpcError', 'VerifBase')):
        obs.append({'h': 'response_err', 'err': es, 'data': dk, 'base': base, 'id': 'int'})
    for es, dk in it.product(ERR_SHAPES, ('absent', 'null', 'int')):
        obs.append({'h': 'error', 'err': es, 'data': dk, 'base': 'JsonRpcError'})
        obs.append({'h': 'error', 'err': es, 'data': dk, 'base': 'VerifBase'})
    maxlen = 2 if tier == 'quick' else 3
    for n in range(0, maxlen + 1):
        for combo in it.product(('call_i', 'call_s', 'notif'), repeat=n):
            obs.append({'h': 'batch_request', 'els': list(combo), '_weight': 3 ** n})
            if n:
                # the same batch GROWN after it was already serialised once (append / extend): same wire form required
                obs.append({'h': 'batch_request', 'els': list(combo), 'build': 'append', '_weight': 3 ** n})
                obs.append({'h': 'batch_request', 'els': list(combo), 'build': 'extend', '_weight': 3 ** n})
        for combo in it.product(('ok', 'err', 'nullid'), repeat=n):
            for base in ('JsonRpcError', 'VerifBase'):
                obs.append({'h': 'batch_response', 'els': list(combo), 'base': base, '_weight': 3 ** n})
                if n and base == 'JsonRpcError':
                    obs.append({'h': 'batch_response', 'els': list(combo), 'base': base, 'build': 'append', '_weight': 3 ** n})
                    obs.append({'h': 'batch_response', 'els': list(combo), 'base': base, 'build': 'extend', '_weight': 3 ** n})
    for dk in ('absent', 'null', 'int'):
        for base in ('JsonRpcError', 'VerifBase'):
            obs.append({'h': 'batch_error', 'data': dk, 'base': base})
    for n, via, via2 in it.product((1, 2), ('single', 'batch'), ('single', 'batch')):
        obs.append({'h': 'request_noparams_batch', 'n': n, 'via': via, 'via2': via2})
    return obs


def finding_key(ob, label, model):
    return f"{ob['h']}/{label}"


def make(ob):
    return globals()['h_' + ob['h']](ob)


# ---------------------------------------------------------------------------------------------------
def _wire(env, msg):
    """to_json + encoder cross-check; returns the JSON value as the peer would decode it."""
    import pjrpc
    w = msg.to_json()
    via_encoder = pjrpc.JSONEncoder().default(msg)
    if not same_json(normalise(via_encoder, pjrpc.JSONEncoder().default), normalise(w, pjrpc.JSONEncoder().default)):
        raise Violation('encoder-differs-from-to_json', (w, via_encoder))
    if env.real:
        text = json.dumps(msg, cls=pjrpc.JSONEncoder)
        back = json.loads(text)
        if not same_json(back, normalise(w, pjrpc.JSONEncoder().default)):
            raise Violation('text-round-trip-differs', (w, back))
        return back
    return normalise(w, pjrpc.JSONEncoder().default)


def _mk_params(env, shape):
    if shape == 'none':
        return None
    if shape == 'tuple0':
        return ()
    if shape == 'list0':
        return []
    if shape == 'dict0':
        return {}
    if shape == 'list1':
        return [env.int('p0')]
    if shape == 'list2':
        return [env.int('p0'), env.str('p1', 2)]
    if shape == 'tuple1':
        return (env.int('p0'),)
    if shape == 'dict1':
        return {'a': env.int('p0')}
    if shape == 'nested':
        return [build(env, 'nest', 'pn', 2), None]
    return {'a': env.int('p0'), 'b': env.bool('p1')}


def _mk_id(env, shape, name='id'):
    if shape == 'none':
        return None
    if shape == 'int':
        return env.int(name)
    return env.str('s' + name, 2)


def _params_equal(a, b):
    if not a and not b:
        return True
    return same_json(a, b)


def _check_request_wire(w, method, params, id):
    if not isinstance(w, dict) or w.get('jsonrpc') != '2.0':
        raise Violation('wire:jsonrpc', w)
    if ('id' in w) != (id is not None):
        raise Violation('wire:id-presence', (w, id))
    if id is not None and not same_json(w['id'], id):
        raise Violation('wire:id-value', (w, id))
    if ('params' in w) != bool(params):
        raise Violation('wire:params-presence', (w, params))
    if params and not same_json(w['params'], params):
        raise Violation('wire:params-value', (w, params))
    if w.get('method') != method:
        raise Violation('wire:method', (w, method))
    if not set(w.keys()) <= {'jsonrpc', 'id', 'method', 'params'}:
        raise Violation('wire:extra-member', w)


def _independent(env, m, m2, w, params):
    """Deserialised messages are independent objects: the receiver editing the parameters of ONE deserialised request in
    place (a middleware injecting an argument) must not show up in another request deserialised from the same kind of
    document.  `wb` is a second, container-wise independent wire form of the original message."""
    import pjrpc
    wb = _wire(env, m)
    if isinstance(m2.params, list):
        m2.params.append('injected')
    elif isinstance(m2.params, dict):
        m2.params['injected'] = 1
    else:
        return
    try:
        m3 = pjrpc.Request.from_json(wb)
    except Exception as e:
        raise Violation('own-wire-form-rejected:' + type(e).__name__, wb)
    if not _params_equal(m3.params, params) or not same_json(_wire(env, m3), _wire(env, m)):      # (`w` itself is aliased by m2)
        raise Violation('deserialised-requests-share-parameters', (w, m3))


def h_request(ob):
    def run(env):
        import pjrpc
        method = env.str('method')
        params = _mk_params(env, ob['params'])
        id = _mk_id(env, ob['id'])
        m = pjrpc.Request(method, params, id)
        w = _wire(env, m)
        env.reached()
        _check_request_wire(w, method, params, id)
        try:
            m2 = pjrpc.Request.from_json(w)
        except Exception as e:
            raise Violation('own-wire-form-rejected:' + type(e).__name__, w)
        if m2.method != method or not same_json(m2.id, id) or not _params_equal(m2.params, params):
            raise Violation('field-lost', (w, m2))
        if m2.is_notification != (id is None):
            raise Violation('notification-flag', (w, m2))
        w2 = _wire(env, m2)
        if not same_json(w2, w):
            raise Violation('not-a-fix-point', (w, w2))
        _independent(env, m, m2, w, params)
        return [ob['params'], 'id' in w, 'params' in w]

    return run


def _check_response_wire(w, id):
    if not isinstance(w, dict) or w.get('jsonrpc') != '2.0':
        raise Violation('wire:jsonrpc', w)
    if 'id' not in w or not same_json(w['id'], id):
        raise Violation('wire:id', (w, id))
    if ('result' in w) == ('error' in w):
        raise Violation('wire:result-error-not-exactly-one', w)
    if not set(w.keys()) <= {'jsonrpc', 'id', 'result', 'error'}:
        raise Violation('wire:extra-member', w)


def h_response_ok(ob):
    def run(env):
        import pjrpc
        id = _mk_id(env, ob['id'])
        result = build(env, ob['result'], 'result', 2)
        m = pjrpc.Response(id=id, result=result)
        w = _wire(env, m)
        env.reached()
        _check_response_wire(w, id)
        if 'result' not in w or not same_json(w['result'], result):
            raise Violation('wire:result', (w, result))
        try:
            m2 = pjrpc.Response.from_json(w)
        except Exception as e:
            raise Violation('own-wire-form-rejected:' + type(e).__name__, w)
        if not m2.is_success or not same_json(m2.id, id) or not same_json(m2.result, result):
            raise Violation('field-lost', (w, m2))
        if not same_json(_wire(env, m2), w):
            raise Violation('not-a-fix-point', w)
        return [ob['result']]

    return run


def _mk_error(env, shape, data_kind):
    """Returns (error object, expected code, expected message, data-or-ABSENT, expected class when deserialised)."""
    import pjrpc
    from pjrpc.common import UNSET
    data = build(env, data_kind, 'data', 2) if data_kind != 'absent' else UNSET
    kw = {} if data_kind == 'absent' else {'data': data}
    if shape == 'generic':
        code, msg = env.int('code'), env.str('msg', 3)
        e = pjrpc.exc.JsonRpcError(code, msg, **kw)
    elif shape == 'typed_default':
        e = pjrpc.exc.MethodNotFoundError(**kw)
        code, msg = -32601, 'Method not found'
    elif shape == 'typed_msg':
        msg = env.str('msg', 3)
        e = pjrpc.exc.InvalidParamsError(message=msg, **kw)
        code = -32602
    elif shape == 'typed_code':
        code = env.int('code')
        e = pjrpc.exc.ServerError(code=code, **kw)
        msg = 'Server error'
    elif shape == 'custom_zero':
        e = VerifZeroError(**kw)  # noqa: F821
        code, msg = 0, 'zero'
    else:
        e = VerifCustomError(**kw)  # noqa: F821
        code, msg = 2001, 'custom error'
    return e, code, msg, data


def _check_error_wire(we, code, msg, data, data_kind):
    if not isinstance(we, dict):
        raise Violation('wire:error-not-object', we)
    if not same_json(we.get('code', 'missing'), code) or isinstance(we.get('code'), bool):
        raise Violation('wire:error-code', (we, code))
    if not same_json(we.get('message', 0), msg):
        raise Violation('wire:error-message', (we, msg))
    if ('data' in we) != (data_kind != 'absent'):
        raise Violation('wire:error-data-presence', (we, data_kind))
    if data_kind != 'absent' and not same_json(we['data'], data):
        raise Violation('wire:error-data', (we, data))
    if not set(we.keys()) <= {'code', 'message', 'data'}:
        raise Violation('wire:error-extra-member', we)


def _check_error_back(e2, code, msg, data, data_kind, base):
    import pjrpc
    from pjrpc.common import UNSET
    want_cls = _ref_classes().get(code, base)      # independent of the library's own code -> class registry
    if type(e2) is not want_cls:
        raise Violation('error-class', (code, type(e2).__name__, want_cls.__name__))
    if not same_json(e2.code, code) or not same_json(e2.message, msg):
        raise Violation('error-field-lost', (e2, code, msg))
    if (e2.data is UNSET) != (data_kind == 'absent'):
        raise Violation('error-data-presence-lost', (e2, data_kind))
    if data_kind != 'absent' and not same_json(e2.data, data):
        raise Violation('error-data-lost', (e2, data))


def _ref_classes():
    import pjrpc
    x = pjrpc.exc
    pairs = [(-32700, x.ParseError), (-32600, x.InvalidRequestError), (-32601, x.MethodNotFoundError),
             (-32602, x.InvalidParamsError), (-32603, x.InternalError), (-32000, x.ServerError),
             (2001, VerifCustomError), (0, VerifZeroError), (-7, VerifNegError)]  # noqa: F821
    return {k: v for k, v in pairs}


def _base(name):
    import pjrpc
    return pjrpc.exc.JsonRpcError if name == 'JsonRpcError' else VerifBase  # noqa: F821


def h_error(ob):
    def run(env):
        base = _base(ob['base'])
        e, code, msg, data = _mk_error(env, ob['err'], ob['data'])
        w = _wire(env, e)
        env.reached()
        _check_error_wire(w, code, msg, data, ob['data'])
        try:
            e2 = base.from_json(w)
        except Exception as x:
            raise Violation('own-wire-form-rejected:' + type(x).__name__, w)
        _check_error_back(e2, code, msg, data, ob['data'], base)
        if not same_json(_wire(env, e2), w):
            raise Violation('not-a-fix-point', w)
        return [type(e2).__name__]

    return run


def h_response_err(ob):
    def run(env):
        import pjrpc
        base = _base(ob['base'])
        id = _mk_id(env, ob['id'])
        e, code, msg, data = _mk_error(env, ob['err'], ob['data'])
        m = pjrpc.Response(id=id, error=e)
        w = _wire(env, m)
        env.reached()
        _check_response_wire(w, id)
        if 'error' not in w:
            raise Violation('wire:error-missing', w)
        _check_error_wire(w['error'], code, msg, data, ob['data'])
        try:
            m2 = pjrpc.Response.from_json(w, error_cls=base)
        except Exception as x:
            raise Violation('own-wire-form-rejected:' + type(x).__name__, w)
        if not m2.is_error or not same_json(m2.id, id):
            raise Violation('field-lost', (w, m2))
        _check_error_back(m2.error, code, msg, data, ob['data'], base)
        try:
            m2.result
            raise Violation('result-of-error-response-did-not-raise', w)
        except pjrpc.exc.JsonRpcError as raised:
            if raised is not m2.error:
                raise Violation('result-raised-other-error', w)
        if not same_json(_wire(env, m2), w):
            raise Violation('not-a-fix-point', w)
        return [type(m2.error).__name__]

    return run


def _grown(cls, items, build, env):
    """The batch holding `items`, either constructed in one go or grown by append / extend AFTER an earlier serialisation
    (of the then shorter batch) - a serialised form must describe the batch as it is now."""
    if not build:
        return cls(*items)
    b = cls(*items[:-1])
    _wire(env, b)
    b.to_json()
    if build == 'append':
        b.append(items[-1])
    else:
        b.extend(items[-1:])
    return b


def h_batch_request(ob):
    def run(env):
        import pjrpc
        reqs, ids = [], []
        for i, k in enumerate(ob['els']):
            id = env.int(f'id{i}') if k == 'call_i' else (env.str(f'sid{i}', 2) if k == 'call_s' else None)
            ids.append(id)
            reqs.append(pjrpc.Request(env.str(f'm{i}', 2), [env.int(f'p{i}')], id))
        try:
            b = _grown(pjrpc.BatchRequest, reqs, ob.get('build'), env)
        except pjrpc.exc.IdentityError:
            return 'duplicate-ids'
        w = _wire(env, b)
        env.reached()
        if not isinstance(w, list) or len(w) != len(reqs):
            raise Violation('wire:batch-shape', w)
        for we, r in zip(w, reqs):
            _check_request_wire(we, r.method, r.params, r.id)
        if len(reqs) == 0:
            return 'empty'       # an empty batch request has no valid wire form to come back from
        try:
            b2 = pjrpc.BatchRequest.from_json(w)
        except Exception as x:
            raise Violation('own-wire-form-rejected:' + type(x).__name__, w)
        if len(b2) != len(reqs):
            raise Violation('batch-length', (w, b2))
        for r2, r in zip(b2, reqs):
            if r2.method != r.method or not same_json(r2.id, r.id) or not _params_equal(r2.params, r.params):
                raise Violation('batch-element-or-order-lost', (w, b2))
        if not same_json(_wire(env, b2), w):
            raise Violation('not-a-fix-point', w)
        # comparing the two batches is a read-only operation: both serialise as before afterwards
        # (only batches whose ids are all of one type: the library orders by id to compare, which is undefined across types / null)
        if len(set(ob['els'])) == 1 and ob['els'][0] != 'notif':
            if not (b == b2) or (b != b2):
                raise Violation('round-tripped-batch-not-equal', w)
            if not same_json(_wire(env, b), w) or not same_json(_wire(env, b2), w):
                raise Violation('comparison-reordered-the-batch', w)
        return [len(b2)]

    return run


def h_request_noparams_batch(ob):
    """Requests WITHOUT a params member, alone and as batch elements: each deserialised request has its own (empty) parameters."""
    def run(env):
        import pjrpc
        n = ob['n']
        docs = [{'jsonrpc': '2.0', 'method': env.str(f'm{i}', 2), 'id': i} for i in range(n)]
        env.reached()
        first = pjrpc.BatchRequest.from_json([dict(d) for d in docs]) if ob['via'] == 'batch' else [pjrpc.Request.from_json(dict(d)) for d in docs]
        for r in first:
            if isinstance(r.params, list):
                r.params.append('injected')
            elif isinstance(r.params, dict):
                r.params['injected'] = 1
        second = pjrpc.BatchRequest.from_json([dict(d) for d in docs]) if ob['via2'] == 'batch' else [pjrpc.Request.from_json(dict(d)) for d in docs]
        for r, d in zip(second, docs):
            if r.params or not same_json(_wire(env, r), d):
                raise Violation('deserialised-requests-share-parameters', (d, r))
        return [n]

    return run


def h_batch_response(ob):
    def run(env):
        import pjrpc
        base = _base(ob['base'])
        resps, exp = [], []
        for i, k in enumerate(ob['els']):
            if k == 'ok':
                resps.append(pjrpc.Response(id=env.int(f'id{i}'), result=env.int(f'r{i}')))
                exp.append(None)
            elif k == 'nullid':
                resps.append(pjrpc.Response(id=None, result=None))
                exp.append(None)
            else:
                code, msg = env.int(f'c{i}'), env.str(f'm{i}', 2)
                resps.append(pjrpc.Response(id=env.int(f'id{i}'), error=pjrpc.exc.JsonRpcError(code, msg)))
                exp.append((code, msg))
        try:
            b = _grown(pjrpc.BatchResponse, resps, ob.get('build'), env)
        except pjrpc.exc.IdentityError:
            return 'duplicate-ids'
        w = _wire(env, b)
        env.reached()
        if not isinstance(w, list) or len(w) != len(resps):
            raise Violation('wire:batch-shape', w)
        for we, r in zip(w, resps):
            _check_response_wire(we, r.id)
        try:
            b2 = pjrpc.BatchResponse.from_json(w, error_cls=base)
        except Exception as x:
            raise Violation('own-wire-form-rejected:' + type(x).__name__, w)
        if len(b2) != len(resps) or not b2.is_success:
            raise Violation('batch-length', (w, b2))
        for r2, r, e in zip(b2, resps, exp):
            if not same_json(r2.id, r.id) or r2.is_error != r.is_error:
                raise Violation('batch-element-or-order-lost', (w, b2))
            if e is None:
                if not same_json(r2.result, r.result):
                    raise Violation('batch-result-lost', (w, b2))
            else:
                _check_error_back(r2.error, e[0], e[1], None, 'absent', base)
        if not same_json(_wire(env, b2), w):
            raise Violation('not-a-fix-point', w)
        if not same_json(_wire(env, b), w):
            raise Violation('comparison-reordered-the-batch', w)
        if 'nullid' not in ob['els']:
            b == b2          # noqa: B015  (comparing is read-only; the result itself depends on error equality, not asserted here)
            if not same_json(_wire(env, b), w) or not same_json(_wire(env, b2), w):
                raise Violation('comparison-reordered-the-batch', w)
        return [len(b2)]

    return run


def h_batch_error(ob):
    def run(env):
        import pjrpc
        base = _base(ob['base'])
        e, code, msg, data = _mk_error(env, 'generic', ob['data'])
        b = pjrpc.BatchResponse(error=e)
        w = _wire(env, b)
        env.reached()
        _check_response_wire(w, None)
        _check_error_wire(w.get('error'), code, msg, data, ob['data'])
        try:
            b2 = pjrpc.BatchResponse.from_json(w, error_cls=base)
        except Exception as x:
            raise Violation('own-wire-form-rejected:' + type(x).__name__, w)
        if not b2.is_error:
            raise Violation('batch-level-error-lost', (w, b2))
        _check_error_back(b2.error, code, msg, data, ob['data'], base)
        if not same_json(_wire(env, b2), w):
            raise Violation('not-a-fix-point', w)
        return ['batch-error']

    return run
