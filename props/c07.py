"""
C07 -- calling through client and server equals calling the function, in any notation.
"""
from __future__ import annotations

import itertools as it

from vlib.explore import Violation
from vlib.server import run_coro
from vlib.wire import Wire, normalise, same_json

PROP = 'C07'
MANIFEST = dict(
    text="Symbolic end-to-end check: a real AbstractClient / AbstractAsyncClient subclass whose transport hands the wire document to a real Dispatcher / AsyncDispatcher (all four pairings) over the value-level wire model. "
         "Concrete skeleton: call notation (call, client(...), proxy attribute, hand-built Request + send, notify, batch.add/notify...call(), batch(...) chaining, batch[...], batch.proxy), argument shape, method behaviour "
         "(returns f(args) / raises a registered typed error / raises a protocol error with a symbolic code / raises ValueError, TypeError or KeyError from its body; on the asynchronous dispatcher the methods are coroutines of which the n-th one invoked for a document suspends 3-n times before its body), id generator, strict flag, batch composition of 1..3 calls / notifications. "
         "Symbolic: argument values, sequential(start, step), the integers / characters returned by the randomness stub of randint / random, error code and data. "
         "Oracle: exactly one well-formed request document per send (ids present and pairwise distinct for calls, absent for notifications, params as given); the caller obtains the value of the direct Python invocation (JSON-normalised) "
         "or an exception of the class registered for the code with equal code / message / data; notifications return None, raise nothing, run the method once; every notation is compared with the hand-built-request notation in the same path; histories of 2..3 calls through one client / dispatcher pair (a function with positional-only parameters and defaults called with fewer / more arguments) are judged call by call.",
    ref='5 C07',
    note="S11: module-level randomness of the id generators is replaced by a stub returning symbolic values within the documented range; colliding random ids (the client refuses to build the batch) are assumed away. "
         "Known finding: generators.uuid yields UUID objects the client cannot serialise (pinned by tests/client/test_generators.py::test_uuid).",
)
BOUNDS = {
    'quick': {'single': '4 notations x 8 argument shapes (positional / named scalars, one positional object / array / null) x 4 behaviours x 4 client/dispatcher pairings x strict', 'batch': '4 notations x compositions of 1..2 over {call ok, call failing, notification} (+ 3 for the add notation) x 2 pairings',
              'idgen': 'sequential(start, step != 0) symbolic; randint(a, b) and random(len<=2, chars) through the randomness stub; uuid'},
    'thorough': {'single': 'as quick', 'batch': 'compositions of 1..3 for all notations x 4 pairings', 'idgen': 'as quick'},
}
STUBS = ['S1', 'S4', 'S5', 'S7 (transport = the library dispatcher)', 'S11 randomness stub', 'S13']
OUTSIDE = ['HTTP / AMQP back ends', 'random id collisions']
ASSUMPTIONS = ['sequential step != 0', 'random ids of one batch are pairwise distinct']
BUDGET = {'quick': 50.0, 'thorough': 200.0}

PAIRINGS = (('sync', 'sync'), ('sync', 'async'), ('async', 'sync'), ('async', 'async'))
ARGS = ('p0', 'p1', 'p2', 'n1', 'n2', 'pd', 'pl', 'pn')
BEHAVIOURS = ('sub', 'typed', 'unreg', 'boom', 'boomt', 'boomk')


def setup():
    import pjrpc
    from pjrpc.common import exceptions as ex
    ex.DeserializationError.__str__ = lambda self: 'deserialization error'
    ex.IdentityError.__str__ = lambda self: 'identity error'
    if 'VerifC07Error' not in globals():
        class VerifC07Error(pjrpc.exc.JsonRpcError):
            code = 2002
            message = 'typed failure'
        globals()['VerifC07Error'] = VerifC07Error


def obligations(tier):
    obs = []
    for (ck, dk), note, args, beh, strict in it.product(PAIRINGS, ('call', 'dunder', 'proxy'), ARGS, BEHAVIOURS, (True, False)):
        if not strict and (ck, dk) != ('sync', 'sync'):
            continue
        obs.append({'h': 'single', 'ck': ck, 'dk': dk, 'note': note, 'args': args, 'beh': beh, 'strict': strict})
    for (ck, dk), args, beh, strict in it.product(PAIRINGS, ('p0', 'p2', 'n1'), ('sub', 'boom', 'typed'), (True, False)):
        obs.append({'h': 'notify', 'ck': ck, 'dk': dk, 'args': args, 'beh': beh, 'strict': strict})
    pairs = PAIRINGS if tier != 'quick' else (('sync', 'sync'), ('async', 'async'))
    comp_kinds = ('ok', 'fail', 'notif')
    for (ck, dk), note in it.product(pairs, ('add', 'chain', 'getitem', 'bproxy')):
        maxn = 3 if (tier != 'quick' or note == 'add') else 2
        for n in range(1, maxn + 1):
            for comp in it.product(comp_kinds, repeat=n):
                if note == 'getitem' and 'notif' in comp:
                    continue            # batch[...] has no notation for notifications
                if note in ('chain', 'bproxy') and 'notif' in comp:
                    continue            # neither has batch(...) / batch.proxy
                for rot in (0, 1, 2, 3):
                    obs.append({'h': 'batch', 'ck': ck, 'dk': dk, 'note': note, 'comp': list(comp), 'rot': rot, 'strict': True,
                                '_weight': 3 ** n})
                if n <= 2:
                    obs.append({'h': 'batch', 'ck': ck, 'dk': dk, 'note': note, 'comp': list(comp), 'rot': 0, 'strict': False,
                                '_weight': 3 ** n})
    # histories of 2..3 calls through one client / dispatcher pair (positional-only parameters with defaults, fewer / more arguments)
    for (ck, dk) in (('sync', 'sync'), ('async', 'async')):
        for counts in it.product((1, 2, 3), repeat=2):
            if counts[0] == counts[1]:
                continue
            for notes in (('call', 'call'), ('notify', 'call'), ('batch', 'call')):
                obs.append({'h': 'history', 'ck': ck, 'dk': dk, 'calls': [['subpo', n] for n in counts], 'notes': list(notes)})
        obs.append({'h': 'history', 'ck': ck, 'dk': dk, 'calls': [['subpo', 1], ['subpo', 3], ['subpo', 2]], 'notes': ['call', 'call', 'call']})
        obs.append({'h': 'history', 'ck': ck, 'dk': dk, 'calls': [['sub', 1], ['sub', 2], ['sub', 1]], 'notes': ['call', 'call', 'call']})
    for (ck, dk), gen, shape in it.product((('sync', 'sync'), ('async', 'async')), ('sequential', 'randint', 'random', 'uuid'), ('call', 'batch2')):
        obs.append({'h': 'idgen', 'ck': ck, 'dk': dk, 'gen': gen, 'shape': shape})
    return obs


def finding_key(ob, label, model):
    if ob['h'] == 'idgen':
        return f"idgen/{ob['gen']}/{label}"
    return f"{ob['h']}/{label}"


def make(ob):
    return globals()['h_' + ob['h']](ob)


# ---------------------------------------------------------------------------------------------------
class _World:
    """client + dispatcher + execution log + sent documents."""

    def __init__(self, env, ck, dk, **client_kw):
        import pjrpc
        import pjrpc.client
        import pjrpc.server
        self.env = env
        self.wire = wire = Wire(env)
        self.log = log = []
        self.sent = sent = []
        self.ck, self.dk = ck, dk
        world = self

        def sub(a, b=10):
            log.append(['sub', a, b])
            return [a, b]

        def typed(a=0, b=0):
            log.append(['typed', a, b])
            raise VerifC07Error(data={'a': a})  # noqa: F821

        def unreg(a=0, b=0):
            log.append(['unreg', a, b])
            raise pjrpc.exc.JsonRpcError(code=world.code(), message='unregistered', data=a)      # data may be falsy (0)

        def boom(a=0, b=0):
            log.append(['boom', a, b])
            raise ValueError('boom-marker')

        def boomt(a=0, b=0):
            log.append(['boomt', a, b])
            raise TypeError('boom-marker')          # an arbitrary exception that merely LOOKS like a binding failure

        def boomk(a=0, b=0):
            log.append(['boomk', a, b])
            raise KeyError('boom-marker')

        def subpo(a, b=10, c=100, /):
            log.append(['subpo', a, b, c])
            return [a, b, c]

        self.fns = {'sub': sub, 'typed': typed, 'unreg': unreg, 'boom': boom, 'boomt': boomt, 'boomk': boomk, 'subpo': subpo}
        d = (pjrpc.server.AsyncDispatcher if dk == 'async' else pjrpc.server.Dispatcher)(**wire.kwargs())
        self._n = 0
        for name, fn in self.fns.items():
            d.add(_suspending(fn, self) if dk == 'async' else fn, name=name)
        self.d = d

        def serve(text):
            self._n = 0
            sent.append(wire.decode(text))
            if dk == 'sync':
                out = d.dispatch(text)
            else:
                out = d.dispatch(text)
            return out

        if ck == 'sync':
            class C(pjrpc.client.AbstractClient):
                def _request(self, request_text, is_notification=False, **kwargs):
                    out = serve(request_text)
                    if dk == 'async':
                        out = run_coro(out)
                    world.flags.append(is_notification)
                    return None if out is None else out[0]
        else:
            class C(pjrpc.client.AbstractAsyncClient):
                async def _request(self, request_text, is_notification=False, **kwargs):
                    out = serve(request_text)
                    if dk == 'async':
                        out = await out
                    world.flags.append(is_notification)
                    return None if out is None else out[0]
        self.flags = []
        kw = dict(client_kw)
        if not wire.real:
            kw['json_loader'] = wire.loader
            kw['json_dumper'] = wire.dumper
        self.c = C(**kw)

    def code(self):
        return self.env.int('ecode')

    def do(self, fn):
        if self.ck == 'sync':
            return fn(self.c)

        async def go():
            r = fn(self.c)
            if hasattr(r, '__await__'):
                r = await r
            return r
        return run_coro(go())


def _suspending(fn, world):
    """Coroutine twin for the asynchronous dispatcher: the n-th method invoked while one document is served suspends 3-n times
    BEFORE its body runs, so an element that is not awaited by dispatch() has not run when the client call returns."""
    import asyncio
    import functools

    @functools.wraps(fn)
    async def co(*args, **kwargs):
        n = world._n
        world._n += 1
        for _ in range(max(0, 3 - n)):
            await asyncio.sleep(0)
        return fn(*args, **kwargs)
    return co


def _args(env, shape, tag=''):
    if shape == 'p0':
        return (), {}
    if shape == 'pd':         # ONE positional argument whose value is a JSON object
        return ({'a': env.int(f'a{tag}'), 'k': None},), {}
    if shape == 'pl':         # one positional argument whose value is a JSON array
        return ([env.int(f'a{tag}'), 'x'],), {}
    if shape == 'pn':         # one positional null
        return (None,), {}
    if shape == 'p1':
        return (env.int(f'a{tag}'),), {}
    if shape == 'p2':
        return (env.int(f'a{tag}'), env.int(f'b{tag}')), {}
    if shape == 'n1':
        return (), {'a': env.int(f'a{tag}')}
    return (), {'a': env.int(f'a{tag}'), 'b': env.int(f'b{tag}')}


def _ref_classes():
    import pjrpc
    x = pjrpc.exc
    pairs = [(-32700, x.ParseError), (-32600, x.InvalidRequestError), (-32601, x.MethodNotFoundError),
             (-32602, x.InvalidParamsError), (-32603, x.InternalError), (-32000, x.ServerError), (2002, VerifC07Error)]  # noqa: F821
    return {k: v for k, v in pairs}


def _expected(world, beh, args, kwargs):
    """Direct invocation of the registered function -> ('value', v) | ('error', cls, code, message, data-or-ABSENT)."""
    import pjrpc
    fn = world.fns[beh]
    n = len(world.log)
    try:
        v = fn(*args, **kwargs)
        out = ('value', normalise(v))
    except TypeError:
        if len(world.log) > n:      # raised by the BODY (it ran): an arbitrary exception, not a binding failure
            out = ('error', pjrpc.exc.ServerError, -32000, 'Server error', ('absent',))
        else:
            out = ('error', pjrpc.exc.InvalidParamsError, -32602, 'Invalid params', None, 'unbound')
    except pjrpc.exc.JsonRpcError as e:
        cls = _ref_classes().get(e.code, pjrpc.exc.JsonRpcError)
        out = ('error', cls, e.code, e.message, ('data', normalise(e.data)))
    except (ValueError, KeyError):
        out = ('error', pjrpc.exc.ServerError, -32000, 'Server error', ('absent',))
    del world.log[n:]          # the direct reference call is not a server-side execution
    return out


def _check_outcome(exp, st, val, what):
    import pjrpc
    if exp[0] == 'value':
        if st != 'ok' or not same_json(val, exp[1]):
            raise Violation('result-differs-from-direct-call', (what, exp[1], st, val))
        return
    cls, code, msg, data = exp[1:5]
    if st != 'raised' or not isinstance(val, pjrpc.exc.JsonRpcError):
        raise Violation('error-not-raised-to-caller', (what, code, st, val))
    if type(val) is not cls:
        raise Violation('error-class-not-the-registered-one', (what, code, type(val).__name__, cls.__name__))
    if val.code != code or val.message != msg:
        raise Violation('error-code-or-message-differs', (what, code, msg, val))
    if data is not None:
        if data[0] == 'absent':
            if val.data is not pjrpc.common.UNSET:
                raise Violation('error-data-appeared', (what, val))
        elif not same_json(val.data, data[1]):
            raise Violation('error-data-differs', (what, data[1], val))


def _try(world, fn):
    import pjrpc
    try:
        return 'ok', world.do(fn)
    except pjrpc.exc.JsonRpcError as e:
        return 'raised', e
    except Exception as e:
        return 'other:' + type(e).__name__, e


def _check_request_doc(doc, method, args, kwargs, is_call, what):
    if not isinstance(doc, dict) or doc.get('jsonrpc') != '2.0' or doc.get('method') != method:
        raise Violation('wire-request-malformed', (what, doc))
    if ('id' in doc) != is_call:
        raise Violation('wire-id-presence', (what, doc))
    want = list(args) if args else (dict(kwargs) if kwargs else None)
    if want is None:
        if doc.get('params'):
            raise Violation('wire-params-invented', (what, doc))
    elif not same_json(doc.get('params'), want):
        raise Violation('wire-params-differ', (what, doc, want))
    if not set(doc.keys()) <= {'jsonrpc', 'id', 'method', 'params'}:
        raise Violation('wire-extra-member', (what, doc))


def h_single(ob):
    def run(env):
        import pjrpc
        beh = ob['beh']
        args, kwargs = _args(env, ob['args'])
        w = _World(env, ob['ck'], ob['dk'], strict=ob['strict'])
        exp = _expected(w, beh, args, kwargs)
        note = ob['note']
        if note == 'call':
            call = lambda c: c.call(beh, *args, **kwargs)  # noqa: E731
        elif note == 'dunder':
            call = lambda c: c(beh, *args, **kwargs)  # noqa: E731
        else:
            call = lambda c: getattr(c.proxy, beh)(*args, **kwargs)  # noqa: E731
        st, val = _try(w, call)
        env.reached()
        if st.startswith('other'):
            raise Violation('raised:' + st[6:], ob['note'])
        if len(w.sent) != 1:
            raise Violation('documents-on-the-wire', len(w.sent))
        _check_request_doc(w.sent[0], beh, args, kwargs, True, note)
        _check_outcome(exp, st, val, note)
        want_runs = 0 if exp[-1] == 'unbound' else 1
        if len(w.log) != want_runs:
            raise Violation('server-executions', (w.log, want_runs))
        # interchangeability: the hand-built request notation must give the same observation
        w2 = _World(env, ob['ck'], ob['dk'], strict=ob['strict'])
        req = pjrpc.Request(beh, list(args) if args else dict(kwargs), id=w.sent[0]['id'])
        st2, resp = _try(w2, lambda c: c.send(req))
        if st2 != 'ok':
            raise Violation('hand-built-send-raised', st2)
        try:
            st2, val2 = 'ok', resp.result
        except pjrpc.exc.JsonRpcError as e:
            st2, val2 = 'raised', e
        _check_outcome(exp, st2, val2, 'send')
        if not same_json(w2.sent, w.sent):
            raise Violation('notations-put-different-documents-on-the-wire', (w.sent, w2.sent))
        return [st, exp[0]]

    return run


def h_notify(ob):
    def run(env):
        beh = ob['beh']
        args, kwargs = _args(env, ob['args'])
        w = _World(env, ob['ck'], ob['dk'], strict=ob['strict'])
        exp = _expected(w, beh, args, kwargs)
        st, val = _try(w, lambda c: c.notify(beh, *args, **kwargs))
        env.reached()
        if st != 'ok' or val is not None:
            raise Violation('notification-returned-or-raised', (st, val))
        if len(w.sent) != 1:
            raise Violation('documents-on-the-wire', len(w.sent))
        _check_request_doc(w.sent[0], beh, args, kwargs, False, 'notify')
        want_runs = 0 if exp[-1] == 'unbound' else 1
        if len(w.log) != want_runs:
            raise Violation('server-executions', (w.log, want_runs))
        if w.flags != [True]:
            raise Violation('is-notification-flag', w.flags)
        return ['notified']

    return run


def h_batch(ob):
    def run(env):
        import pjrpc
        w = _World(env, ob['ck'], ob['dk'], strict=ob['strict'])
        items = []
        for i, k in enumerate(ob['comp']):
            beh = 'sub' if k in ('ok', 'notif') else ('typed' if i % 2 == 0 else 'boom')
            if ob['note'] == 'getitem':
                shape = ('p1', 'pd', 'pl', 'pn')[(i + ob.get('rot', 0)) % 4]
            else:
                shape = ('p1', 'n1', 'n2', 'pd')[(i + ob.get('rot', 0)) % 4]
            args, kwargs = _args(env, shape, str(i))
            items.append((k, beh, args, kwargs))
        exps = [_expected(w, beh, args, kwargs) for k, beh, args, kwargs in items]
        note = ob['note']

        def build(c):
            b = c.batch
            if note == 'add':
                for k, beh, args, kwargs in items:
                    b = b.notify(beh, *args, **kwargs) if k == 'notif' else b.add(beh, *args, **kwargs)
                return b.call()
            if note == 'chain':
                for k, beh, args, kwargs in items:
                    b = b(beh, *args, **kwargs)
                return b.call()
            if note == 'getitem':
                return b[tuple((beh,) + tuple(args) for k, beh, args, kwargs in items)]
            p = b.proxy
            for k, beh, args, kwargs in items:
                p = getattr(p, beh)(*args, **kwargs)
            return p.call()

        st, val = _try(w, build)
        env.reached()
        if st.startswith('other'):
            raise Violation('raised:' + st[6:], note)
        if len(w.sent) != 1:
            raise Violation('documents-on-the-wire', len(w.sent))
        doc = w.sent[0]
        if not isinstance(doc, list) or len(doc) != len(items):
            raise Violation('wire-batch-shape', doc)
        ids = []
        for d, (k, beh, args, kwargs) in zip(doc, items):
            _check_request_doc(d, beh, args, kwargs, k != 'notif', note)
            if k != 'notif':
                ids.append(d['id'])
        for x in range(len(ids)):
            for y in range(x + 1, len(ids)):
                if same_json(ids[x], ids[y]):
                    raise Violation('wire-duplicate-ids', ids)
        if len(w.log) != len(items):
            raise Violation('server-executions', (w.log, len(items)))
        calls = [(e, it_) for e, it_ in zip(exps, items) if it_[0] != 'notif']
        if not calls:
            if st != 'ok' or val is not None:
                raise Violation('all-notification-batch-returned-or-raised', (st, val))
            return ['all-notifications']
        errs = [e for e, _ in calls if e[0] == 'error']
        if errs:
            if st != 'raised':
                raise Violation('batch-error-not-raised', (st, val))
            if not any(type(val) is e[1] and val.code == e[2] for e in errs):
                raise Violation('batch-raised-foreign-error', (val, [e[2] for e in errs]))
            return ['raised']
        if st != 'ok' or not same_json(list(val), [e[1] for e, _ in calls]):
            raise Violation('batch-results-differ-from-direct-calls', (st, val, [e[1] for e, _ in calls]))
        return ['results', len(calls)]

    return run


class _RandomStub:
    """S11: randint(a, b) -> fresh symbolic int in [a, b]; choice(seq) -> seq[fresh symbolic index]."""

    def __init__(self, env):
        self.env = env
        self.n = 0

    def randint(self, a, b):
        self.n += 1
        return self.env.int(f'rnd{self.n}', a, b)

    def choice(self, seq):
        self.n += 1
        i = self.env.int(f'rnd{self.n}', 0, len(seq) - 1)
        pick = seq[0]
        for j in range(1, len(seq)):
            if i == j:
                pick = seq[j]
        return pick


def h_idgen(ob):
    def run(env):
        import functools
        from pjrpc.common import generators
        gen = ob['gen']
        saved = generators._random
        generators._random = _RandomStub(env)
        try:
            if gen == 'sequential':
                start, step = env.int('start'), env.int('step')
                env.assume(step != 0)
                impl = functools.partial(generators.sequential, start, step)
            elif gen == 'randint':
                a, b = env.int('lo'), env.int('hi')
                env.assume(a <= b)
                impl = functools.partial(generators.randint, a, b)
            elif gen == 'random':
                impl = functools.partial(generators.random, 2, 'ab')
            else:
                impl = generators.uuid
            w = _World(env, ob['ck'], ob['dk'], id_gen_impl=impl)
            a0, a1 = env.int('a0'), env.int('a1')
            if ob['shape'] == 'call':
                st, val = _try(w, lambda c: c.call('sub', a0))
                want = [a0, 10]
            else:
                st, val = _try(w, lambda c: c.batch.add('sub', a0).add('sub', a1).call())
                want = [[a0, 10], [a1, 10]]
        finally:
            generators._random = saved
        env.reached()
        if st == 'other:IdentityError' and gen in ('randint', 'random') and ob['shape'] == 'batch2':
            env.assume(False)       # colliding random ids: the client refuses to build the batch (assumed away)
        if st != 'ok':
            raise Violation('call-failed:' + st, gen)
        if not same_json(list(val) if ob['shape'] == 'batch2' else val, want):
            raise Violation('result-differs-from-direct-call', (val, want))
        doc = w.sent[0]
        ids = [d['id'] for d in doc] if isinstance(doc, list) else [doc['id']]
        for i in ids:
            if i is None or isinstance(i, bool) or not isinstance(i, (int, str)):
                raise Violation('wire-id-not-a-json-rpc-id', ids)
        if gen == 'sequential':
            if ids[0] != start or (len(ids) == 2 and ids[1] != start + step):
                raise Violation('sequential-ids', (ids, start, step))
        if gen == 'randint' and any(i < a or i > b for i in ids):
            raise Violation('randint-id-out-of-range', (ids, a, b))
        if gen == 'random' and any(len(i) != 2 or any(ch not in 'ab' for ch in i) for i in ids):
            raise Violation('random-id-outside-alphabet', ids)
        return [len(ids)]

    return run


def h_history(ob):
    """Several calls through ONE client / dispatcher pair, one after the other: every call is judged on its own (a registered
    function with positional-only parameters and defaults, called with and without its optional arguments, in either order)."""
    def run(env):
        w = _World(env, ob['ck'], ob['dk'], strict=True)
        outs = []
        for i, (beh, nargs) in enumerate(ob['calls']):
            args = tuple(env.int(f'h{i}_{j}') for j in range(nargs))
            exp = _expected(w, beh, args, {})
            n0 = len(w.log)
            note = ob['notes'][i]
            if note == 'call':
                call = lambda c: c.call(beh, *args)  # noqa: E731
            elif note == 'notify':
                call = lambda c: c.notify(beh, *args)  # noqa: E731
            else:
                call = lambda c: c.batch[(beh, *args), ]  # noqa: E731   (a 1-tuple of calls)
            st, val = _try(w, call)
            env.reached()
            if st.startswith('other'):
                raise Violation('raised:' + st[6:], (i, ob['calls']))
            if len(w.log) != n0 + (0 if exp[-1] == 'unbound' else 1):
                raise Violation('server-executions', (i, w.log))
            if note == 'notify':
                if st != 'ok' or val is not None:
                    raise Violation('notification-returned-or-raised', (i, st, val))
            elif note == 'batch':
                if exp[0] == 'value':
                    if st != 'ok' or not same_json(list(val), [exp[1]]):
                        raise Violation('result-differs-from-direct-call', (i, st, val, exp[1]))
                elif st != 'raised':
                    raise Violation('error-not-raised', (i, st))
            else:
                _check_outcome(exp, st, val, f'history[{i}]')
            outs.append(st)
        return outs

    return run
