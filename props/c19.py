"""
C19 -- tracers see every attempt begin and complete exactly once.
"""
from __future__ import annotations

import itertools as it

from vlib.client import ClientRig, Raw
from vlib.explore import Violation
from vlib.wire import UNDECODABLE

PROP = 'C19'
MANIFEST = dict(
    text="Symbolic check of the real traced/retried wrappers of both clients: 0..3 recording tracers, retry strategy with symbolic attempts (0..2 quick / 0..3 thorough), one symbolic outcome selector per attempt over "
         "{ok, error response, listed / unlisted transport exception, undecodable body, non-response document, identity mismatch via a symbolic response id, KeyboardInterrupt, CancelledError; the transport exception either a fresh object per attempt or one cached object re-raised}; "
         "single / batch / notification, caller-supplied vs default trace context, sync / async. Oracle: per attempt, begin on every tracer in configuration order followed by exactly one of end(response|None) / error(exc) "
         "on every tracer in order with the same context object (the caller's when supplied); the exception reaching the caller is the object raised; #begin == #end + #error.",
    ref='5 C19',
    note="With the default context a fresh context object per attempt is accepted (the statement fixes the context per begin/completion pair). Tracers that raise are outside the claim.",
)
BOUNDS = {
    'quick': {'attempts': '0..2 symbolic, n+2 scripted attempts', 'tracers': '0..3', 'outcomes': '2 retryable kinds + one of 4 terminal pairs per obligation, selector symbolic'},
    'thorough': {'attempts': '0..3', 'tracers': '0..3', 'outcomes': 'as quick'},
}
STUBS = ['S1', 'S5', 'S6', 'S7', 'S13']
OUTSIDE = ['tracers that raise', 'attempts beyond the bound']
ASSUMPTIONS = []
BUDGET = {'quick': 50.0, 'thorough': 200.0}
TERMINALS = (('ok', 'errresp'), ('unlisted_exc', 'undecodable'), ('nonresponse', 'mismatch'), ('kbd', 'cancelled'), ('errresp_null', 'ok'))


def setup():
    from pjrpc.common import exceptions as ex
    ex.DeserializationError.__str__ = lambda self: 'deserialization error'
    ex.IdentityError.__str__ = lambda self: 'identity error'


def obligations(tier):
    obs = []
    nmax = 2 if tier == 'quick' else 3
    for kind, ntr, req, ctx, term in it.product(('sync', 'async'), (0, 1, 2, 3), ('single', 'batch', 'notif'),
                                                ('supplied', 'default'), TERMINALS):
        if tier == 'quick' and ntr == 3 and (req != 'single' or ctx != 'supplied'):
            continue
        if ntr == 0 and ctx == 'default':
            continue
        if term[0] == 'errresp_null' and req != 'single':
            continue            # a null-id element inside a batch array is an identity mismatch (covered by 'mismatch')
        obs.append({'h': 'trace', 'kind': kind, 'ntr': ntr, 'req': req, 'ctx': ctx, 'term': list(term), 'nmax': nmax,
                    'retry': True, '_weight': 10})
    for kind, req, term in it.product(('sync', 'async'), ('single', 'batch', 'notif'), TERMINALS):
        if term[0] == 'errresp_null' and req != 'single':
            continue
        obs.append({'h': 'trace', 'kind': kind, 'ntr': 2, 'req': req, 'ctx': 'default', 'term': list(term), 'nmax': 0,
                    'retry': False, '_weight': 2})
    for kind, req, ntr in it.product(('sync', 'async'), ('single', 'batch', 'notif'), (1, 2)):
        obs.append({'h': 'trace', 'kind': kind, 'ntr': ntr, 'req': req, 'ctx': 'default', 'term': list(TERMINALS[0]), 'nmax': nmax,
                    'retry': True, 'sameexc': 1, '_weight': 10})
    return obs


def finding_key(ob, label, model):
    return f"{ob['h']}/{ob['req']}/{label}"


def make(ob):
    return globals()['h_' + ob['h']](ob)


class _AClock:
    def __init__(self, real_asyncio):
        self._a = real_asyncio

    async def sleep(self, d):
        pass

    def __getattr__(self, name):
        return getattr(self._a, name)


class _Clock:
    def sleep(self, d):
        pass


def h_trace(ob):
    def run(env):
        import asyncio
        from types import SimpleNamespace
        import pjrpc
        from pjrpc.client import retry as retry_mod
        from pjrpc.client.tracer import Tracer
        events = []

        class Rec(Tracer):
            def __init__(self, i):
                self.i = i

            def on_request_begin(self, trace_context, request):
                events.append((self.i, 'begin', trace_context, request, None))

            def on_request_end(self, trace_context, request, response):
                events.append((self.i, 'end', trace_context, request, response))

            def on_error(self, trace_context, request, error):
                events.append((self.i, 'error', trace_context, request, error))

        tracers = [Rec(i) for i in range(ob['ntr'])]
        kw = {'tracers': tracers}
        n = 0
        if ob['retry']:
            n = env.int('attempts', 0, ob['nmax'])
            kw['retry_strategy'] = retry_mod.RetryStrategy(backoff=retry_mod.PeriodicBackoff(attempts=n, interval=0.0),
                                                           codes={2000}, exceptions={TimeoutError})
        kinds = ['exc', 'code'] + ob['term']
        cached_exc = TimeoutError('cached')
        outcomes = []
        is_batch = ob['req'] == 'batch'

        def script(k, doc, notif):
            sel = env.int(f'o{k}', 0, len(kinds) - 1)
            kind = kinds[0]
            for j in range(1, len(kinds)):
                if sel == j:
                    kind = kinds[j]
            o = {'kind': kind}
            outcomes.append(o)
            if kind == 'exc':
                # 'sameexc': the transport re-raises ONE cached exception object on every failing attempt
                o['exc'] = cached_exc if ob.get('sameexc') else TimeoutError(f'a{k}')
            elif kind == 'unlisted_exc':
                o['exc'] = ConnectionError(f'a{k}')
            elif kind == 'kbd':
                o['exc'] = KeyboardInterrupt()
            elif kind == 'cancelled':
                o['exc'] = asyncio.CancelledError()
            if 'exc' in o:
                raise o['exc']
            if notif:
                return None
            if kind == 'undecodable':
                return Raw(UNDECODABLE)
            if kind == 'nonresponse':
                return {'jsonrpc': '2.0', 'id': 1}
            rid = 1
            if kind == 'mismatch':
                rid = env.int(f'rid{k}')
                env.assume(rid != 1)
            if kind in ('code', 'errresp', 'errresp_null'):
                body = {'jsonrpc': '2.0', 'id': None if kind == 'errresp_null' else rid, 'error': {'code': 2000 if kind == 'code' else 2001, 'message': 'm'}}
                if is_batch and kind == 'code':
                    body['id'] = None      # batch-level error
                    return body
            else:
                body = {'jsonrpc': '2.0', 'id': rid, 'result': k}
            return [body] if is_batch else body

        supplied = SimpleNamespace() if ob['ctx'] == 'supplied' else None
        saved = (retry_mod.time, retry_mod.asyncio)
        retry_mod.time, retry_mod.asyncio = _Clock(), _AClock(asyncio)
        try:
            rig = ClientRig(env, ob['kind'], script, **kw)
            if ob['req'] == 'single':
                req = pjrpc.Request('m', [1], id=1)
                call = lambda c: c.send(req, _trace_ctx=supplied)  # noqa: E731
            elif ob['req'] == 'batch':
                req = pjrpc.BatchRequest(pjrpc.Request('m', [1], id=1))
                call = lambda c: c.batch.send(req, _trace_ctx=supplied)  # noqa: E731
            else:
                req = pjrpc.Request('m', [1])
                call = lambda c: c.send(req, _trace_ctx=supplied)  # noqa: E731
            raised, result = None, None
            try:
                result = rig.do(call)
            except (KeyboardInterrupt, asyncio.CancelledError, Exception) as e:
                raised = e
        finally:
            retry_mod.time, retry_mod.asyncio = saved
        env.reached()
        nattempts = len(rig.sent)
        if nattempts != len(outcomes) or nattempts < 1 or nattempts > n + 1:
            raise Violation('attempt-count', (nattempts, n))
        # expected completion kind per attempt
        pos = 0
        T = ob['ntr']
        for k, o in enumerate(outcomes):
            fails = 'exc' in o or (ob['req'] != 'notif' and o['kind'] in ('undecodable', 'nonresponse', 'mismatch'))
            seg = events[pos:pos + 2 * T]
            if len(seg) != 2 * T:
                raise Violation('missing-events', (k, len(events), T))
            ctx0 = seg[0][2] if T else None
            for i in range(T):
                b = seg[i]
                if b[0] != i or b[1] != 'begin':
                    raise Violation('begin-order', (k, [(e[0], e[1]) for e in seg]))
                c = seg[T + i]
                if c[0] != i or c[1] != ('error' if fails else 'end'):
                    raise Violation('completion-kind-or-order', (k, o['kind'], [(e[0], e[1]) for e in seg]))
                if b[2] is not ctx0 or c[2] is not ctx0:
                    raise Violation('context-differs-within-attempt', k)
                if supplied is not None and ctx0 is not supplied:
                    raise Violation('caller-context-not-used', k)
                if b[3] is not req or c[3] is not req:
                    raise Violation('request-object-differs', k)
                if fails:
                    if 'exc' in o and c[4] is not o['exc']:
                        raise Violation('error-event-carries-other-exception', (k, o['kind']))
                    if 'exc' not in o and not isinstance(c[4], Exception):
                        raise Violation('error-event-without-exception', (k, o['kind']))
                else:
                    if ob['req'] == 'notif':
                        if c[4] is not None:
                            raise Violation('notification-end-with-response', k)
                    elif c[4] is None:
                        raise Violation('end-without-response', k)
            pos += 2 * T
        if pos != len(events):
            raise Violation('surplus-events', [(e[0], e[1]) for e in events[pos:]])
        last = outcomes[-1]
        if 'exc' in last:
            if raised is not last['exc']:
                raise Violation('exception-not-reaching-caller-unchanged', (last['kind'], raised))
        elif ob['req'] != 'notif' and last['kind'] in ('undecodable', 'nonresponse', 'mismatch'):
            if raised is None:
                raise Violation('failure-not-raised', last['kind'])
            if T and raised is not events[-1][4]:
                raise Violation('raised-differs-from-traced-error', last['kind'])
        elif raised is not None:
            raise Violation('unexpected-exception:' + type(raised).__name__, last['kind'])
        begins = sum(1 for e in events if e[1] == 'begin')
        comps = sum(1 for e in events if e[1] in ('end', 'error'))
        if begins != comps:
            raise Violation('begin-completion-count', (begins, comps))
        return [nattempts, len(events)]

    return run
