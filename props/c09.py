"""
C09 -- retries are bounded, follow the configured backoff, and return the last outcome.

E1: the real retry / retry_async loops reached through the real clients' retried(traced(_send)), with symbolic attempts,
    symbolic per-attempt outcome selectors and symbolic error codes, compared with a reference interpreter of the statement.
E2: the three Backoff generators translated from /repo's AST to z3 terms and compared with the closed forms.
"""
from __future__ import annotations

import itertools as it

from vlib.client import ClientRig
from vlib.explore import Violation

PROP = 'C09'
MANIFEST = dict(
    text="(E1) Bounded symbolic model checking of the real retry loops through the real clients: attempts n (symbolic, 0..3 quick / 0..4 thorough), one symbolic outcome selector per attempt for n+2 attempts "
         "over {success, listed code, unlisted code, batch-level listed error, listed exception, subclass of listed, unlisted exception}, symbolic error codes (the solver decides membership in the configured set); "
         "the backoff used in E1 yields pairwise distinct concrete delays so that their order is observable; differential oracle against a 15-line reference interpreter of the statement: number of sends, exact list of sleep arguments, identity of the returned response / re-raised exception; "
         "single / batch / notification x client-wide / per-request / disabled strategy x sync / async; also as the SECOND request of a client whose first request was retried once (budget and backoff are per request). "
         "(E2) the Periodic / Exponential / Fibonacci generator bodies are translated from the current source AST into z3 real arithmetic for attempts 0..6 and z3 must refute 'k-th delay != closed form' for all real parameters (cvc5 cross-check in the thorough tier).",
    ref='5 C09, 1.3',
    note="Clock replaced by a recorder (S6). Floats are reals in E2 (IEEE rounding, overflow and C pow are not modelled). Attempts bounded as stated; jitter is an arbitrary real constant per call in E2 and 0 / a symbolic int in E1.",
    technique="symbolic execution of the real code (CrossHair core + z3) for the retry loop; AST->SMT translation of the backoff generators with z3 (and cvc5) deciding closed-form equivalence",
)
BOUNDS = {
    'quick': {'loop': 'attempts 0..2 symbolic (0..3 for the sync single-request client-wide configurations); n+2 scripted attempts; outcome selector symbolic over a 4-kind sub-alphabet per obligation (2 retryable + 2 terminal kinds, all pairings enumerated); '
                      'codes in {None, empty, {2000}, {2000,2001}} with symbolic response code; exceptions in {None, {TimeoutError}}',
              'formulas': 'attempts 0..6, all real parameters'},
    'thorough': {'loop': 'attempts 0..4', 'formulas': 'attempts 0..8, z3 and cvc5 must agree'},
}
STUBS = ['S1', 'S5', 'S6 clock recorder (time.sleep / asyncio.sleep)', 'S7 scripted transport', 'S10 floats are reals in E2', 'S13']
OUTSIDE = ['IEEE-754 rounding / overflow of the delay arithmetic', 'attempts beyond the bound', 'jitter callables with side effects']
ASSUMPTIONS = ['a batch response with element-level errors (no batch-level error) is a successful outcome for the retry decision']
BUDGET = {'quick': 50.0, 'thorough': 200.0}

RETRYABLE_PAIRS = (('code', 'exc'), ('exc', 'subexc'), ('code',))
TERMINAL_PAIRS = (('success', 'unlisted_code'), ('success', 'unlisted_exc'))


class _Sub(TimeoutError):
    pass


def setup():
    from pjrpc.common import exceptions as ex
    ex.DeserializationError.__str__ = lambda self: 'deserialization error'
    ex.IdentityError.__str__ = lambda self: 'identity error'


def obligations(tier):
    obs = []
    nmax = 3 if tier == 'quick' else 4
    for kind in ('sync', 'async'):
        for req in ('single', 'batch', 'notif'):
            for place in ('client', 'request', 'override_none', 'none', 'request_over_client'):
                for codes in ('none', 'empty', 'one', 'two'):
                    for excs in ('none', 'timeout'):
                        if req == 'notif':
                            if codes != 'one' or excs != 'timeout':
                                continue
                            obs.append({'h': 'loop', 'kind': kind, 'req': req, 'place': place, 'codes': codes, 'excs': excs,
                                        'ret': ['exc', 'subexc'], 'term': ['success', 'unlisted_exc'], 'nmax': nmax, '_weight': 5})
                            continue
                        if place in ('override_none', 'none', 'request_over_client') and (codes not in ('one',) or excs != 'timeout'):
                            continue
                        for ret in RETRYABLE_PAIRS:
                            for term in TERMINAL_PAIRS:
                                r = list(ret)
                                if req == 'batch' and ret == ('code',):
                                    r = ['batchlevel', 'code']
                                deep = (kind == 'sync' and req == 'single' and place == 'client') or tier != 'quick'
                                obs.append({'h': 'loop', 'kind': kind, 'req': req, 'place': place, 'codes': codes, 'excs': excs,
                                            'ret': r, 'term': list(term), 'nmax': nmax if deep else nmax - 1,
                                            '_weight': 10 + 50 * deep})
                                if place == 'client' and codes == 'one' and excs == 'timeout' and req == 'single' and ret == RETRYABLE_PAIRS[0] and term == TERMINAL_PAIRS[0]:
                                    # the other backoff families through the real loop, with concrete parameters that reach the cap
                                    for bk in ('exp_decay', 'exp_spike', 'fib', 'exp_zero'):
                                        obs.append({'h': 'loop', 'kind': kind, 'req': req, 'place': place, 'codes': codes, 'excs': excs,
                                                    'ret': r, 'term': list(term), 'nmax': nmax, 'backoff': bk, '_weight': 30})
                                if place in ('client', 'request') and codes == 'one' and excs == 'timeout' and req != 'notif':
                                    # the same, as the SECOND request of a client whose first request was retried once:
                                    # budget and backoff are per request, not per client
                                    obs.append({'h': 'loop', 'kind': kind, 'req': req, 'place': place, 'codes': codes, 'excs': excs,
                                                'ret': r, 'term': list(term), 'nmax': nmax - 1, 'prelude': 1, '_weight': 20})
    return obs


def finding_key(ob, label, model):
    return f"{ob['h']}/{ob.get('req', ob.get('family'))}/{label}"


def make(ob):
    return globals()['h_' + ob['h']](ob)


def extra_checks(tier):
    from vlib import smtkernel
    return smtkernel.check_backoffs(tier)


CODESETS = {'none': None, 'empty': set(), 'one': {2000}, 'two': {2000, 2001}}


class _Clock:
    def __init__(self):
        self.sleeps = []

    def sleep(self, d):
        self.sleeps.append(d)


class _AClock(_Clock):
    def __init__(self, real_asyncio):
        super().__init__()
        self._a = real_asyncio

    async def sleep(self, d):
        self.sleeps.append(d)

    def __getattr__(self, name):
        return getattr(self._a, name)


def h_loop(ob):
    def run(env):
        import asyncio
        import pjrpc
        from pjrpc.client import retry as retry_mod
        n = env.int('attempts', 0, ob['nmax'])
        interval = 1.5
        jc = [0]

        def jitter():
            jc[0] += 1
            return (jc[0] - 1) * 0.25

        def jitter_index():
            jc[0] += 1
            return jc[0] - 1
        codes = CODESETS[ob['codes']]
        excs = {TimeoutError} if ob['excs'] == 'timeout' else None
        # delays are pairwise distinct (1.5, 1.75, 2.0, ...) so that the ORDER of the backoff's delays is observable
        bk = ob.get('backoff')
        if bk == 'exp_decay':       # base*factor^k with factor < 1 and a cap below the first delay: 3, 2, 1, 0.5, ...
            backoff = retry_mod.ExponentialBackoff(attempts=n, base=4.0, factor=0.5, max_value=3.0)
            delay = lambda k: min(3.0, 4.0 * 0.5 ** k)  # noqa: E731
        elif bk == 'exp_spike':     # a jitter spike over the cap in the middle: 1, 5, 4, 5, ...
            spikes = [0.0, 4.0, 0.0, 0.0, -1.0, 0.0, 0.0, 0.0]
            backoff = retry_mod.ExponentialBackoff(attempts=n, base=1.0, factor=2.0, max_value=5.0, jitter=lambda: spikes[jitter_index()])
            delay = lambda k: min(5.0, 2.0 ** k + spikes[k])  # noqa: E731
        elif bk == 'exp_zero':      # a cap of 0 is a cap (round 11, S204): every pause is 0
            backoff = retry_mod.ExponentialBackoff(attempts=n, base=1.0, factor=2.0, max_value=0.0)
            delay = lambda k: 0.0  # noqa: E731
        elif bk == 'fib':
            fibs = [1, 2, 3, 5, 8, 13, 21, 34]
            backoff = retry_mod.FibonacciBackoff(attempts=n, multiplier=1.0, max_value=4.0, jitter=jitter)
            delay = lambda k: min(4.0, fibs[k] + 0.25 * k)  # noqa: E731
        else:
            backoff = retry_mod.PeriodicBackoff(attempts=n, interval=interval, jitter=jitter)
            delay = lambda k: interval + 0.25 * k  # noqa: E731
        strategy = retry_mod.RetryStrategy(backoff=backoff, codes=codes, exceptions=excs)
        other = retry_mod.RetryStrategy(backoff=retry_mod.PeriodicBackoff(attempts=ob['nmax'] + 3, interval=99),
                                        codes={2000, 2001}, exceptions={Exception})
        place = ob['place']
        client_kw, send_kw, effective = {}, {}, None
        if place == 'client':
            client_kw['retry_strategy'] = strategy
            effective = strategy
        elif place == 'request':
            send_kw['_retry_strategy'] = strategy
            effective = strategy
        elif place == 'request_over_client':
            client_kw['retry_strategy'] = other
            send_kw['_retry_strategy'] = strategy
            effective = strategy
        elif place == 'override_none':
            client_kw['retry_strategy'] = other
            send_kw['_retry_strategy'] = None
        # outcome script ---------------------------------------------------------------------------
        kinds = ob['ret'] + ob['term']
        outcomes = []        # materialised lazily, one per attempt

        def outcome(k):
            sel = env.int(f'o{k}', 0, len(kinds) - 1)
            kind = kinds[0]
            for j in range(1, len(kinds)):
                if sel == j:
                    kind = kinds[j]
            if kind in ('code', 'unlisted_code', 'batchlevel'):
                code = env.int(f'code{k}')
                if codes:
                    listed = code in codes
                else:
                    listed = False
                if kind == 'unlisted_code':
                    env.assume(not listed)
                elif codes is not None and len(codes) > 0:
                    env.assume(listed)
                return {'kind': kind, 'code': code, 'listed': listed}
            if kind == 'exc':
                return {'kind': kind, 'exc': TimeoutError(f'attempt{k}')}
            if kind == 'subexc':
                return {'kind': kind, 'exc': _Sub(f'attempt{k}')}
            if kind == 'unlisted_exc':
                return {'kind': kind, 'exc': ConnectionError(f'attempt{k}')}
            return {'kind': 'success'}

        is_batch = ob['req'] == 'batch'

        phase = ['prelude' if ob.get('prelude') else 'main']

        def script(k, doc, notif):
            if phase[0] == 'prelude':
                # an earlier request on the same client: one listed failure, then success (concrete)
                if k == 0:
                    return {'jsonrpc': '2.0', 'id': None if is_batch else 1, 'error': {'code': min(codes), 'message': 'pre'}}
                return [{'jsonrpc': '2.0', 'id': 1, 'result': 0}] if is_batch else {'jsonrpc': '2.0', 'id': 1, 'result': 0}
            o = outcome(k)
            outcomes.append(o)
            if 'exc' in o:
                raise o['exc']
            if notif:
                return None
            if o['kind'] == 'success':
                if is_batch:
                    return [{'jsonrpc': '2.0', 'id': 1, 'result': k}]
                return {'jsonrpc': '2.0', 'id': 1, 'result': k}
            err = {'code': o['code'], 'message': f'm{k}'}
            if is_batch and o['kind'] != 'batchlevel':
                # element-level error inside a batch: not a batch-level failure
                return [{'jsonrpc': '2.0', 'id': 1, 'error': err}]
            return {'jsonrpc': '2.0', 'id': None if is_batch else 1, 'error': err}

        clock = _Clock()
        aclock = _AClock(asyncio)
        saved = (retry_mod.time, retry_mod.asyncio)
        retry_mod.time, retry_mod.asyncio = clock, aclock
        try:
            rig = ClientRig(env, ob['kind'], script, **client_kw)
            if ob['req'] == 'single':
                req = pjrpc.Request('m', [1], id=1)
                call = lambda c: c.send(req, **send_kw)  # noqa: E731
            elif ob['req'] == 'batch':
                br = pjrpc.BatchRequest(pjrpc.Request('m', [1], id=1))
                call = lambda c: c.batch.send(br, **send_kw)  # noqa: E731
            else:
                nreq = pjrpc.Request('m', [1])
                call = lambda c: c.send(nreq, **send_kw)  # noqa: E731
            raised = None
            result = None
            if phase[0] == 'prelude':
                try:
                    rig.do(call)
                except Exception:
                    pass
                phase[0] = 'main'
                del rig.sent[:], rig.flags[:], clock.sleeps[:], aclock.sleeps[:], outcomes[:]
                jc[0] = 0
            try:
                result = rig.do(call)
            except (TimeoutError, ConnectionError) as e:
                raised = e
            except Exception as e:
                raise Violation('raised:' + type(e).__name__, [o['kind'] for o in outcomes])
        finally:
            retry_mod.time, retry_mod.asyncio = saved
        env.reached()
        sleeps = clock.sleeps + aclock.sleeps
        # reference interpreter of the statement ---------------------------------------------------
        want_sleeps, k = [], 0
        budget = n if effective is not None else 0
        while True:
            if k >= len(outcomes):
                raise Violation('fewer-sends-than-reference', (k, [o['kind'] for o in outcomes]))
            o = outcomes[k]
            if effective is None:
                retryable = False
            elif 'exc' in o:
                retryable = bool(excs) and isinstance(o['exc'], TimeoutError)
            elif ob['req'] == 'notif':
                retryable = False
            elif o['kind'] in ('code', 'batchlevel', 'unlisted_code'):
                batch_elem = is_batch and o['kind'] != 'batchlevel'
                retryable = (not batch_elem) and bool(codes) and o['listed']
            else:
                retryable = False
            if retryable and len(want_sleeps) < budget:
                want_sleeps.append(delay(len(want_sleeps)))
                k += 1
                continue
            break
        last = outcomes[k]
        if len(outcomes) != k + 1 or len(rig.sent) != k + 1:
            raise Violation('send-count', (len(rig.sent), k + 1, [o['kind'] for o in outcomes]))
        if len(rig.sent) > n + 1 and effective is not None:
            raise Violation('more-than-n+1-sends', (len(rig.sent), n))
        if len(sleeps) != len(want_sleeps) or any(a != b for a, b in zip(sleeps, want_sleeps)):
            raise Violation('sleeps', (sleeps, want_sleeps))
        if 'exc' in last:
            if raised is not last['exc']:
                raise Violation('exception-not-reraised-unchanged', (raised, last['kind']))
            return ['raised', k + 1]
        if raised is not None:
            raise Violation('unexpected-exception', raised)
        if ob['req'] == 'notif':
            if result is not None:
                raise Violation('notification-returned-something', result)
            return ['notif', k + 1]
        if result is None:
            raise Violation('no-response-returned')
        if last['kind'] == 'success':
            got = result.result
            if (list(got) if is_batch else got) != ([k] if is_batch else k):
                raise Violation('not-the-last-response', (got, k))
        else:
            if is_batch and last['kind'] != 'batchlevel':
                e = result[0].error
            else:
                e = result.error
            if not e or e.code != last['code'] or e.message != f'm{k}':
                raise Violation('not-the-last-error-response', (e, k))
        return ['returned', k + 1, len(sleeps)]

    return run


def h_formula(ob):
    """Replay of an E2 counterexample (the model is the parameter assignment)."""
    def run(env):
        from vlib import smtkernel
        label = smtkernel.replay_formula(env.model)
        env.reached()
        if label:
            raise Violation(label, env.model)
        return 'ok'

    return run
