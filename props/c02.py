"""
C02 -- one response per call, none per notification; a batch maps over its elements (compositional, differential).
"""
from __future__ import annotations

import itertools as it

from vlib.explore import Violation
from vlib.server import ELEMENTS, Rig, element, expected_log_entry, has_duplicate_ids
from vlib.wire import Wire, same_json, wf_response_document

PROP = 'C02'
BOUNDS = {
    'quick': {'batch': 'sequences of 1..2 elements over 12 element kinds (call/notification x ok/unknown/nobind/protocol error/arbitrary exception, non-object, object without method); '
                       'ids symbolic ints (unbounded) or symbolic strings (len<=2) or mixed; max_batch_size unset or symbolic >= 0; both dispatchers',
              'single': 'every element kind alone, int and string ids'},
    'thorough': {'batch': 'sequences of 1..3 elements (int ids), 1..2 with every id typing incl. mixed int/str', 'single': 'as quick'},
}
STUBS = ['S1 wire model', 'S4', 'S5', 'S8 recorder methods', 'S13']
OUTSIDE = ['batches longer than the bound', 'max_batch_size < 0', 'string ids longer than 2 characters when two of them meet']
ASSUMPTIONS = ['methods keep no state of their own', 'max_batch_size == 0 may mean "unlimited" or "reject every batch" (undocumented): either is accepted']
BUDGET = {'quick': 40.0, 'thorough': 150.0}

MANIFEST = dict(
    text="Differential, compositional symbolic check on the real dispatchers: a batch (1..2 elements quick, 1..3 thorough, over 12 element kinds) is dispatched, and each element "
         "alone on a fresh dispatcher, inside ONE symbolic path with shared symbolic ids (ints unbounded, strings len<=2), params and max_batch_size; the solver decides which ids coincide, "
         "whether len > limit etc. Oracle: rejected batches (reference predicate) give one -32600/id null and an empty execution log; accepted batches equal the list of single answers in order "
         "(None if empty), codes and execution log are the concatenations, every response id is type- and value-identical to the request id.",
    ref='5 C02',
    note="Methods of the rig have fixed signatures (variadic binding is C04's subject). max_batch_size == 0 may mean unlimited or reject-all. ",
)


def setup():
    from pjrpc.common import exceptions as ex
    ex.DeserializationError.__str__ = lambda self: 'deserialization error'
    ex.IdentityError.__str__ = lambda self: 'identity error'


def obligations(tier):
    obs = []
    for d in ('sync', 'async'):
        for k in ELEMENTS:
            for idt in ('i', 's'):
                obs.append({'h': 'single', 'el': k, 'idt': idt, 'disp': d})
        maxlen = 2 if tier == 'quick' else 3
        for n in range(1, maxlen + 1):
            for combo in it.product(ELEMENTS, repeat=n):
                for mbs in ('unset', 'sym'):
                    if n == 3 and mbs == 'sym' and combo[0] > combo[2]:
                        continue
                    obs.append({'h': 'batch', 'els': list(combo), 'idt': ['i'] * n, 'mbs': mbs, 'disp': d,
                                '_weight': 5 ** n})
        calls = [e for e in ELEMENTS if e.startswith('call')]
        for a, b in it.product(calls, repeat=2):
            for idt in (['s', 's'], ['i', 's']):
                if tier == 'quick' and (a, b) not in (('call:ok', 'call:ok'), ('call:ok', 'call:perr'), ('call:boom', 'call:unknown')):
                    continue
                obs.append({'h': 'batch', 'els': [a, b], 'idt': idt, 'mbs': 'unset', 'disp': d, '_weight': 30})
        # an integer id next to its numeric-looking string form (distinct ids), at every pair of positions of a 2..3 batch
        for iv, sv in ((1, '1'), (0, '0'), (-7, '-7')):
            for els, idt in ((['call:ok', 'call:ok'], [['const', iv], ['const', sv]]),
                             (['call:ok', 'call:perr'], [['const', sv], ['const', iv]]),
                             (['call:ok', 'notif:ok', 'call:boom'], [['const', iv], 'i', ['const', sv]]),
                             (['call:ok', 'call:ok', 'call:ok'], [['const', iv], ['const', sv], ['const', iv]])):
                obs.append({'h': 'batch', 'els': els, 'idt': idt, 'mbs': 'unset', 'disp': d, '_weight': 30})
    return obs


def finding_key(ob, label, model):
    return f"{ob['h']}/{label}"


def make(ob):
    return globals()['h_' + ob['h']](ob)


def _run(rig, doc):
    try:
        return rig.dispatch_doc(doc)
    except Exception as e:
        raise Violation('raised:' + type(e).__name__, doc)


def _check_single(doc, info, out, log):
    """The statement's first sentence for one element sent alone."""
    if not info['valid']:
        if out is None:
            raise Violation('invalid-request-unanswered', doc)
        if log:
            raise Violation('invalid-request-executed', (doc, log))
        return
    if info['idtag'] == 'n':
        if out is not None:
            raise Violation('notification-answered', (doc, out))
    else:
        if out is None:
            raise Violation('call-unanswered', doc)
        rdoc = out[0]
        if not isinstance(rdoc, dict):
            raise Violation('call-answered-by-array', (doc, rdoc))
        if 'id' not in rdoc or not same_json(rdoc['id'], info['id']):
            raise Violation('response-id-differs', (doc, rdoc))
    want = expected_log_entry(doc)
    if want is None:
        if log:
            raise Violation('executed-without-binding', (doc, log))
    else:
        if len(log) != 1 or not same_json(log[0], want):
            raise Violation('not-executed-exactly-once', (doc, log, want))


def h_single(ob):
    def run(env):
        wire = Wire(env)
        rig = Rig(env, ob['disp'], wire=wire)
        doc, info = element(env, ob['el'], 0, ob['idt'])
        out = _run(rig, doc)
        env.reached()
        _check_single(doc, info, out, rig.log)
        return [out[1] if out else None, len(rig.log)]

    return run


def h_batch(ob):
    def run(env):
        wire = Wire(env)
        mbs = env.int('mbs', 0) if ob['mbs'] == 'sym' else None
        rig = Rig(env, ob['disp'], wire=wire, max_batch_size=mbs)
        docs, infos = [], []
        for i, k in enumerate(ob['els']):
            d, inf = element(env, k, i, ob['idt'][i])
            docs.append(d)
            infos.append(inf)
        out = _run(rig, docs)
        # each element alone on a fresh dispatcher with the same registry
        singles, slogs = [], []
        for d, inf in zip(docs, infos):
            r1 = Rig(env, ob['disp'], wire=wire)
            singles.append(_run(r1, d))
            slogs.append(r1.log)
        env.reached()
        n = len(docs)
        rejected = any(not inf['valid'] for inf in infos) or has_duplicate_ids(infos)
        over = mbs is not None and mbs >= 1 and n > mbs
        zero = mbs is not None and mbs == 0
        if rejected or over:
            _expect_rejected(out, rig.log, docs)
            return ['rejected']
        if zero and out is not None and isinstance(out[0], dict) and 'error' in out[0] and out[0].get('id') is None \
                and out[0]['error'].get('code') == -32600 and not rig.log:
            return ['rejected-by-zero-limit']       # "reject all" reading of max_batch_size == 0
        want_docs = [s[0] for s in singles if s is not None]
        want_codes = tuple(c for s in singles if s is not None for c in s[1])
        want_log = [e for lg in slogs for e in lg]
        if not want_docs:
            if out is not None:
                raise Violation('all-notification-batch-answered', (docs, out))
        else:
            if out is None:
                raise Violation('batch-unanswered', docs)
            if not isinstance(out[0], list):
                raise Violation('accepted-batch-not-answered-by-array', (docs, out[0]))
            if not same_json(out[0], want_docs):
                raise Violation('batch-differs-from-singles', (docs, out[0], want_docs))
            if tuple(out[1]) != want_codes:
                raise Violation('batch-codes-differ-from-singles', (docs, out[1], want_codes))
        if not same_json(rig.log, want_log):
            raise Violation('batch-executions-differ-from-singles', (docs, rig.log, want_log))
        for d, inf, s, lg in zip(docs, infos, singles, slogs):
            _check_single(d, inf, s, lg)
        return ['accepted', len(want_docs), len(want_log)]

    return run


def _expect_rejected(out, log, docs):
    if log:
        raise Violation('rejected-batch-executed', (docs, log))
    if out is None:
        raise Violation('rejected-batch-unanswered', docs)
    rdoc, codes = out
    if wf_response_document(rdoc) or not isinstance(rdoc, dict) or 'error' not in rdoc:
        raise Violation('rejected-batch-not-single-error', (docs, rdoc))
    if rdoc['error']['code'] != -32600 or rdoc['id'] is not None:
        raise Violation('rejected-batch-wrong-error', (docs, rdoc))
    if tuple(codes) != (-32600,):
        raise Violation('rejected-batch-wrong-codes', (docs, codes))
