"""
C06 -- Deserialisation is strict and total: only DeserializationError escapes.

from_json of Request / Response / JsonRpcError / BatchRequest / BatchResponse on every skeleton of the
per-member kind alphabet K with symbolic leaves; append/extend histories with symbolic ids.
"""
from __future__ import annotations

import itertools as it

from vlib.explore import Violation
from vlib.wire import ABSENT_VALUE, KINDS, build, obj

PROP = 'C06'

ID_OK = ('absent', 'null', 'int', 'str')
PARAMS_OK = ('absent', 'list0', 'list1', 'dict0', 'dict1')
QK_METHOD = ('absent', 'null', 'int', 'str', 'list0')
QK_PARAMS = ('absent', 'null', 'int', 'str', 'list0', 'list1', 'dict1')
NONOBJ = ('null', 'bool', 'int', 'float', 'str', 'list0', 'list1')

BOUNDS = {
    'quick': {
        'request': 'K x K x Km x Kp over (jsonrpc,id,method,params), K = absent,null,bool,int,float,str,[],[int],{},{"a":int}, Km = absent,null,int,str,[], Kp = absent,null,int,str,[],[int],{"a":int}; all leaves symbolic and unbounded',
        'response': 'K x K x Kp x Km over (jsonrpc,id,result,error) with error as a raw JSON kind; plus error objects (code,message) in K^2 x data in {absent,null,int} x result in {absent,int,list0} x id in {int,bool}',
        'error': 'full product K^3 over (code,message,data) + non-object kinds; error_cls in {JsonRpcError, ClientError}',
        'batch': 'length 0..2 over element alphabet {call int id, call str id(len<=2), notification, no-method object, non-object}, dict-shaped batch-level documents',
        'history': '<= 3 append/extend operations, ids symbolic int / symbolic str (len<=1) / None',
    },
    'thorough': {
        'request': 'full product K^4',
        'response': 'full product K^4, error objects over full K^3 x result in {absent,null,bool,int,str,list0,dict1} x id in {absent,int,bool}',
        'error': 'as quick',
        'batch': 'length 0..3, str ids len<=3',
        'history': '<= 4 operations',
    },
}
STUBS = ['S4 DeserializationError.__str__/IdentityError.__str__ constant', 'S5 logging disabled',
         'S13 format() of symbolic int renders "<int>"']
OUTSIDE = ['nesting deeper than one level inside params/result/data', 'converse direction (valid => accepted): see C05',
           'user subclasses of the message classes with other constructor signatures']
ASSUMPTIONS = ['CPython 3.12 + CrossHair proxy semantics; each path re-validated on its concrete witness in the plain interpreter']
BUDGET = {'quick': 40.0, 'thorough': 120.0}

MANIFEST = dict(
    text="Bounded symbolic model checking of the real from_json/append/extend code: for every skeleton of the per-member JSON-kind alphabet "
         "(full product in the thorough tier) all integer/string/bool/float leaves are z3 variables and CrossHair enumerates the path tree to exhaustion; "
         "oracle: only DeserializationError/IdentityError may escape, acceptance implies structural validity, failed append/extend leaves the batch and its id set unchanged. "
         "A confirmed obligation holds for ALL leaf values of that skeleton; skeletons outside the listed alphabets are outside the claim.",
    ref='5 C06',
    note="Bounds: nesting depth 1 inside params/result/data; batches <= 2 (quick) / 3 (thorough) elements; histories <= 3 / 4 operations; two symbolic string ids bounded to length 2 / 3.",
)


def setup():
    from pjrpc.common import exceptions as ex
    ex.DeserializationError.__str__ = lambda self: 'deserialization error'
    ex.IdentityError.__str__ = lambda self: 'identity error'


# ---------------------------------------------------------------------------------------------------
def obligations(tier):
    obs = []
    if tier == 'quick':
        k3, k4 = QK_METHOD, QK_PARAMS
    else:
        k3 = k4 = KINDS
    for kj, ki, km, kp in it.product(KINDS, KINDS, k3, k4):
        obs.append({'h': 'request', 'k': [kj, ki, km, kp]})
    for kj, ki, kr, ke in it.product(KINDS, KINDS, k4, k3):
        obs.append({'h': 'response', 'k': [kj, ki, kr, ke]})
    if tier == 'quick':
        eo = it.product(KINDS, KINDS, ('absent', 'null', 'int'), ('absent', 'int', 'list0'), ('int', 'bool'))
    else:
        eo = it.product(KINDS, KINDS, KINDS, ('absent', 'null', 'bool', 'int', 'str', 'list0', 'dict1'),
                        ('absent', 'int', 'bool'))
    for kc, km, kd, kr, ki in eo:
        obs.append({'h': 'response_err', 'k': [kc, km, kd, kr, ki]})
    for base in ('JsonRpcError', 'ClientError'):
        for kc, km, kd in it.product(KINDS, KINDS, KINDS):
            obs.append({'h': 'error', 'k': [kc, km, kd], 'base': base})
    for cls in ('Request', 'Response', 'JsonRpcError', 'BatchRequest', 'BatchResponse'):
        for k in NONOBJ + ('dict0',):
            obs.append({'h': 'nonobject', 'cls': cls, 'k': k})
    maxlen = 2 if tier == 'quick' else 3
    elems = ('call_i', 'call_s', 'notif', 'nomethod', 'nonobj')
    for n in range(0, maxlen + 1):
        for combo in it.product(elems, repeat=n):
            obs.append({'h': 'batch_request', 'els': list(combo), 'sl': 2 if tier == 'quick' else 3,
                        '_weight': 3 ** n})
    relems = ('ok_i', 'ok_s', 'err_i', 'null_id', 'both', 'neither', 'nonobj')
    for n in range(0, maxlen + 1):
        for combo in it.product(relems, repeat=n):
            obs.append({'h': 'batch_response', 'els': list(combo), 'sl': 2 if tier == 'quick' else 3,
                        '_weight': 3 ** n})
    for kj, ki, kr, ke in it.product(('absent', 'str', 'int'), ('absent', 'null', 'int', 'str'),
                                     ('absent', 'null', 'int'), ('absent', 'null', 'obj', 'int')):
        obs.append({'h': 'batch_response_dict', 'k': [kj, ki, kr, ke]})
    nops = 3 if tier == 'quick' else 4
    opk = ('app_i', 'app_s', 'app_n', 'ext_ii', 'ext_is')
    for cls in ('BatchRequest', 'BatchResponse'):
        for n in range(1, nops + 1):
            for combo in it.product(opk, repeat=n):
                obs.append({'h': 'history', 'cls': cls, 'ops': list(combo), '_weight': 4 ** n})
    return obs


def finding_key(ob, label, model):
    return f"{ob['h']}/{label}"


def make(ob):
    return globals()['h_' + ob['h']](ob)


# ---------------------------------------------------------------------------------------------------
def _deser(fn, *a, **kw):
    """Returns ('ok', obj) | ('rejected', None) | raises Violation for any other exception type."""
    from pjrpc.common import exceptions as ex
    try:
        return 'ok', fn(*a, **kw)
    except ex.DeserializationError:
        return 'rejected', None
    except ex.IdentityError:
        return 'identity', None
    except Exception as e:
        raise Violation('raised:' + type(e).__name__, a)


def h_request(ob):
    kj, ki, km, kp = ob['k']

    def run(env):
        import pjrpc
        doc = obj(jsonrpc=build(env, kj, 'jsonrpc'), id=build(env, ki, 'id'), method=build(env, km, 'method'),
                  params=build(env, kp, 'params'))
        st, r = _deser(pjrpc.Request.from_json, doc)
        env.reached()
        if st == 'identity':
            raise Violation('identity-error-on-single')
        if st == 'rejected':
            return 'rejected'
        if kj != 'str' or doc['jsonrpc'] != '2.0':
            raise Violation('accepted:bad-version', doc)
        if km != 'str':
            raise Violation('accepted:method-not-string', doc)
        if kp not in PARAMS_OK:
            raise Violation('accepted:params-not-structured', doc)
        if ki not in ID_OK:
            raise Violation('accepted:id-kind-' + ki, doc)
        return ['accepted', r.id]

    return run


def _check_error_object(kc, km, doc_err, err, base):
    import pjrpc
    if kc != 'int':
        raise Violation('accepted:error-code-kind-' + kc, doc_err)
    if km != 'str':
        raise Violation('accepted:error-message-kind-' + km, doc_err)
    if not isinstance(err, base):
        raise Violation('error-not-instance-of-base', err)


def h_response(ob):
    kj, ki, kr, ke = ob['k']

    def run(env):
        import pjrpc
        doc = obj(jsonrpc=build(env, kj, 'jsonrpc'), id=build(env, ki, 'id'), result=build(env, kr, 'result'),
                  error=build(env, ke, 'error'))
        st, r = _deser(pjrpc.Response.from_json, doc)
        env.reached()
        if st == 'identity':
            raise Violation('identity-error-on-single')
        if st == 'rejected':
            return 'rejected'
        if kj != 'str' or doc['jsonrpc'] != '2.0':
            raise Violation('accepted:bad-version', doc)
        if ki not in ID_OK:
            raise Violation('accepted:id-kind-' + ki, doc)
        if ke != 'absent':
            raise Violation('accepted:error-not-error-object', doc)
        if kr == 'absent':
            raise Violation('accepted:neither-result-nor-error', doc)
        if r.is_error:
            raise Violation('success-became-error', (doc, r))
        return ['accepted', r.id]

    return run


def h_response_err(ob):
    kc, km, kd, kr, ki = ob['k']

    def run(env):
        import pjrpc
        err = obj(code=build(env, kc, 'code'), message=build(env, km, 'message'), data=build(env, kd, 'data'))
        doc = obj(jsonrpc='2.0', id=build(env, ki, 'id'), result=build(env, kr, 'result'), error=err)
        st, r = _deser(pjrpc.Response.from_json, doc)
        env.reached()
        if st == 'identity':
            raise Violation('identity-error-on-single')
        if st == 'rejected':
            return 'rejected'
        if ki not in ID_OK:
            raise Violation('accepted:id-kind-' + ki, doc)
        if kr != 'absent':
            raise Violation('accepted:both-result-and-error', doc)
        if not r.is_error:
            raise Violation('error-lost', (doc, r))
        _check_error_object(kc, km, err, r.error, pjrpc.exc.JsonRpcError)
        return ['accepted', r.error.code]

    return run


def h_error(ob):
    kc, km, kd = ob['k']

    def run(env):
        import pjrpc
        base = getattr(pjrpc.exc, ob['base'])
        doc = obj(code=build(env, kc, 'code'), message=build(env, km, 'message'), data=build(env, kd, 'data'))
        st, e = _deser(base.from_json, doc)
        env.reached()
        if st == 'identity':
            raise Violation('identity-error-on-single')
        if st == 'rejected':
            return 'rejected'
        _check_error_object(kc, km, doc, e, pjrpc.exc.JsonRpcError)
        return ['accepted', type(e).__name__]

    return run


def h_nonobject(ob):
    def run(env):
        import pjrpc
        cls = {'Request': pjrpc.Request, 'Response': pjrpc.Response, 'JsonRpcError': pjrpc.exc.JsonRpcError,
               'BatchRequest': pjrpc.BatchRequest, 'BatchResponse': pjrpc.BatchResponse}[ob['cls']]
        doc = build(env, ob['k'], 'doc')
        st, r = _deser(cls.from_json, doc)
        env.reached()
        if st == 'rejected':
            return 'rejected'
        if ob['cls'] == 'BatchResponse' and ob['k'] == 'list0' and st == 'ok' and len(r) == 0:
            # an empty response array is not named by the property (only "an empty batch request")
            return 'accepted-empty-batch-response'
        raise Violation(f"accepted:{ob['cls']}-from-{ob['k']}", r)

    return run


def _req_elem(env, kind, i, sl):
    if kind == 'call_i':
        return {'jsonrpc': '2.0', 'method': 'm', 'id': env.int(f'id{i}')}, ('i', None)
    if kind == 'call_s':
        return {'jsonrpc': '2.0', 'method': 'm', 'id': env.str(f'sid{i}', sl)}, ('s', None)
    if kind == 'notif':
        return {'jsonrpc': '2.0', 'method': 'm'}, ('n', None)
    if kind == 'nomethod':
        return {'jsonrpc': '2.0', 'id': env.int(f'id{i}')}, ('bad', None)
    return env.int(f'x{i}'), ('bad', None)


def _dups(ids):
    """ids: list of (tag, value) with tag in i/s/n; duplicates = equal non-null ids of equal JSON type."""
    seen = []
    for tag, v in ids:
        if tag == 'n':
            continue
        for t2, v2 in seen:
            if t2 == tag and v2 == v:
                return True
        seen.append((tag, v))
    return False


def h_batch_request(ob):
    def run(env):
        import pjrpc
        docs, tags = [], []
        for i, kind in enumerate(ob['els']):
            d, (tag, _) = _req_elem(env, kind, i, ob['sl'])
            docs.append(d)
            tags.append((tag, d.get('id') if isinstance(d, dict) else None))
        st, b = _deser(pjrpc.BatchRequest.from_json, docs)
        env.reached()
        bad = any(t == 'bad' for t, _ in tags)
        dup = (not bad) and _dups(tags)
        if st == 'identity':
            if not dup:
                raise Violation('identity-error-without-duplicate', docs)
            return 'identity'
        if st == 'rejected':
            return 'rejected'
        if len(docs) == 0:
            raise Violation('accepted:empty-batch-request')
        if bad:
            raise Violation('accepted:batch-with-invalid-element', docs)
        if dup:
            raise Violation('accepted:duplicate-ids', docs)
        if [r.id for r in b] != [d.get('id') for d in docs]:
            raise Violation('batch-order-or-ids', (docs, b))
        return ['accepted', len(b)]

    return run


def _resp_elem(env, kind, i, sl):
    if kind == 'ok_i':
        return {'jsonrpc': '2.0', 'id': env.int(f'id{i}'), 'result': env.int(f'r{i}')}, 'i'
    if kind == 'ok_s':
        return {'jsonrpc': '2.0', 'id': env.str(f'sid{i}', sl), 'result': None}, 's'
    if kind == 'err_i':
        return {'jsonrpc': '2.0', 'id': env.int(f'id{i}'),
                'error': {'code': env.int(f'c{i}'), 'message': env.str(f'm{i}', 2)}}, 'i'
    if kind == 'null_id':
        return {'jsonrpc': '2.0', 'id': None, 'result': env.int(f'r{i}')}, 'n'
    if kind == 'both':
        return {'jsonrpc': '2.0', 'id': env.int(f'id{i}'), 'result': env.int(f'r{i}'),
                'error': {'code': 1, 'message': 'm'}}, 'bad'
    if kind == 'neither':
        return {'jsonrpc': '2.0', 'id': env.int(f'id{i}')}, 'bad'
    return env.int(f'x{i}'), 'bad'


def h_batch_response(ob):
    def run(env):
        import pjrpc
        docs, tags = [], []
        for i, kind in enumerate(ob['els']):
            d, tag = _resp_elem(env, kind, i, ob['sl'])
            docs.append(d)
            tags.append((tag, d.get('id') if isinstance(d, dict) else None))
        st, b = _deser(pjrpc.BatchResponse.from_json, docs)
        env.reached()
        bad = any(t == 'bad' for t, _ in tags)
        dup = (not bad) and _dups(tags)
        if st == 'identity':
            if not dup:
                raise Violation('identity-error-without-duplicate', docs)
            return 'identity'
        if st == 'rejected':
            return 'rejected'
        if bad:
            raise Violation('accepted:batch-with-invalid-element', docs)
        if dup:
            raise Violation('accepted:duplicate-ids', docs)
        if [r.id for r in b] != [d.get('id') for d in docs]:
            raise Violation('batch-order-or-ids', (docs, b))
        for r, d in zip(b, docs):
            if r.is_error != ('error' in d):
                raise Violation('batch-element-kind', (docs, b))
        return ['accepted', len(b)]

    return run


def h_batch_response_dict(ob):
    kj, ki, kr, ke = ob['k']

    def run(env):
        import pjrpc
        if ke == 'obj':
            e = {'code': env.int('code'), 'message': env.str('msg', 2)}
        else:
            e = build(env, ke, 'error')
        doc = obj(jsonrpc=build(env, kj, 'jsonrpc'), id=build(env, ki, 'id'), result=build(env, kr, 'result'), error=e)
        st, b = _deser(pjrpc.BatchResponse.from_json, doc)
        env.reached()
        if st == 'identity':
            raise Violation('identity-error-on-dict')
        if st == 'rejected':
            return 'rejected'
        # accepted: must be a valid batch-level error response
        if kj != 'str' or doc['jsonrpc'] != '2.0':
            raise Violation('accepted:bad-version', doc)
        if ke != 'obj':
            raise Violation('accepted:error-not-error-object', doc)
        if ki not in ('absent', 'null'):
            raise Violation('accepted:batch-level-error-with-id', doc)
        if kr != 'absent':
            raise Violation('accepted:both-result-and-error', doc)
        if not b.is_error or b.error.code != e['code']:
            raise Violation('batch-level-error-lost', (doc, b))
        return ['accepted-batch-error', b.error.code]

    return run


def h_history(ob):
    def run(env):
        import pjrpc
        from pjrpc.common import exceptions as ex
        is_req = ob['cls'] == 'BatchRequest'

        def mk(id):
            return pjrpc.Request('m', id=id) if is_req else pjrpc.Response(id=id, result=1)

        batch = pjrpc.BatchRequest() if is_req else pjrpc.BatchResponse()
        model = []  # reference: list of (tag, id)

        def tag_of(v):
            return 'n' if v is None else ('s' if isinstance(v, str) else 'i')

        for n, op in enumerate(ob['ops']):
            if op == 'app_i':
                new = [env.int(f'i{n}')]
            elif op == 'app_s':
                new = [env.str(f's{n}', 1)]
            elif op == 'app_n':
                new = [None]
            elif op == 'ext_ii':
                new = [env.int(f'i{n}a'), env.int(f'i{n}b')]
            else:
                new = [env.int(f'i{n}a'), env.str(f's{n}b', 1)]
            tagged = [(tag_of(v), v) for v in new]
            want_dup = _dups(model + tagged)
            before = [m.id for m in batch]
            try:
                if op.startswith('app'):
                    batch.append(mk(new[0]))
                else:
                    batch.extend([mk(v) for v in new])
                raised = False
            except ex.IdentityError:
                raised = True
            except Exception as e:
                raise Violation('raised:' + type(e).__name__, (n, op))
            after = [m.id for m in batch]
            if raised != want_dup:
                raise Violation('duplicate-accepted' if want_dup else 'identity-error-without-duplicate',
                                (n, op, before, new))
            if raised:
                if after != before or len(batch) != len(before):
                    raise Violation('failed-op-changed-batch', (n, op, before, after))
                # the failed operation must not have poisoned the id set: ids of the failed op that do not
                # collide with *stored* ids must still be addable
                for t, v in tagged:
                    if t != 'n' and not _dups(model + [(t, v)]):
                        probe_before = [m.id for m in batch]
                        try:
                            batch.append(mk(v))
                        except ex.IdentityError:
                            raise Violation('failed-op-poisoned-ids', (n, op, before, new))
                        model.append((t, v))
                        if [m.id for m in batch] != probe_before + [v]:
                            raise Violation('append-after-failure-wrong', (n, op))
                        break
            else:
                model.extend(tagged)
                if after != before + new:
                    raise Violation('op-result-wrong', (n, op, before, after, new))
        env.reached()
        return [len(batch)]

    return run
