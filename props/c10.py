"""
C10 -- concurrent batches cannot mix up responses; sequential mode is sequential.

The interleaving of the element handlers is a *symbolic* schedule: every suspension point awaits a fresh future, a driver
task resolves one pending future per step and which one is a z3 integer c_k with 0 <= c_k < len(pending).  CrossHair's
path tree is then the set of interleavings and exhaustion means all of them.
"""
from __future__ import annotations

import asyncio
import itertools as it

from vlib.explore import Violation
from vlib.wire import Wire, same_json

PROP = 'C10'
MANIFEST = dict(
    text="Bounded symbolic model checking of AsyncDispatcher.dispatch on batches under EVERY interleaving: methods, a middleware and an error handler are coroutines that suspend on fresh futures; "
         "a driver resolves one pending future per step, chosen by a symbolic integer, so the solver's path tree enumerates the schedules (2 x 2, 3 x 1, 3 x 2 [90 schedules], 4 x 1 elements x suspension points in the quick tier; 4 x 2 [2520], 3 x 3 [1680], 5 x 1 in the thorough tier) "
         "and exhaustion = all schedules. Elements include failing ones, notifications, plain non-coroutine methods and methods of a context-less class-based view that keep per-call state on self across a suspension; ids are symbolic. "
         "Handler table: a catch-all handler plus one handler per failing element's error code (each must run exactly once, for its own element). Oracle: response array in request order, each with its own id and own result / error, every method ran exactly once; with concurrent_batch=False at most one element in flight and start order == request order.",
    ref='5 C10',
    note="Real asyncio event loop (trusted). The driver waits a fixed number of loop turns before each choice; if a task were slower to reach its next suspension point than that, fewer (never wrong) schedules would be explored. "
         "Suspension points per element <= 3.",
)
BOUNDS = {
    'quick': {'schedules': '2 elements x 2 suspension points (6 schedules each), 3 x 1 (6), 3 x 2 (90), 4 x 1 (24)', 'suspension sites': 'method, middleware (before / after the inner handler), error handler'},
    'thorough': {'schedules': 'quick + 4 x 2 (2520 schedules), 3 x 3 (1680), 5 x 1 (120)', 'suspension sites': 'as quick'},
}
STUBS = ['S1', 'S4', 'S5', 'S9 real event loop', 'S13']
OUTSIDE = ['more than 4 elements / 2 suspension points', 'threads']
ASSUMPTIONS = ['ids in a batch are pairwise distinct']
BUDGET = {'quick': 60.0, 'thorough': 600.0}

EL_KINDS = ('co', 'fail', 'notif', 'plain')


def setup():
    from pjrpc.common import exceptions as ex
    ex.DeserializationError.__str__ = lambda self: 'deserialization error'
    ex.IdentityError.__str__ = lambda self: 'identity error'


def obligations(tier):
    obs = []
    for conc in (True, False):
        for site in ('method', 'middleware', 'handler'):
            for kinds in it.product(EL_KINDS, repeat=2):
                if site == 'handler' and 'fail' not in kinds:
                    continue
                obs.append({'h': 'sched', 'els': list(kinds), 'points': 2, 'site': site, 'conc': conc, '_weight': 10})
            for kinds in (('co', 'co', 'co'), ('co', 'fail', 'notif'), ('fail', 'plain', 'co'), ('notif', 'co', 'fail')):
                if site == 'handler' and 'fail' not in kinds:
                    continue
                obs.append({'h': 'sched', 'els': list(kinds), 'points': 1, 'site': site, 'conc': conc, '_weight': 10})
            for kinds in (('co', 'co', 'co'), ('co', 'fail', 'notif'), ('fail', 'co', 'plain')):
                if site == 'handler' and 'fail' not in kinds:
                    continue
                obs.append({'h': 'sched', 'els': list(kinds), 'points': 2, 'site': site, 'conc': conc,
                            '_weight': 500, '_budget': 300.0})
            for kinds in (('co', 'co', 'co', 'co'), ('co', 'fail', 'notif', 'co')):
                if site == 'handler' and 'fail' not in kinds:
                    continue
                obs.append({'h': 'sched', 'els': list(kinds), 'points': 1, 'site': site, 'conc': conc,
                            '_weight': 200, '_budget': 300.0})
            if site == 'method':
                for kinds in (('plainfail', 'co'), ('co', 'plainfail', 'plain')):
                    obs.append({'h': 'sched', 'els': list(kinds), 'points': 1, 'site': site, 'conc': conc, '_weight': 10})
                for kinds in (('view', 'view'), ('view', 'co', 'view'), ('view', 'view', 'view')):
                    obs.append({'h': 'sched', 'els': list(kinds), 'points': 1 if len(kinds) == 3 else 2, 'site': site, 'conc': conc, '_weight': 10})
            if tier == 'thorough':
                for kinds in (('co', 'fail', 'co', 'notif'), ('fail', 'co', 'co', 'co')):
                    if site == 'handler':
                        continue
                    obs.append({'h': 'sched', 'els': list(kinds), 'points': 2, 'site': site, 'conc': conc,
                                '_weight': 5000, '_budget': 3000.0})
                for kinds in (('co', 'fail', 'co'),):
                    if site != 'method':
                        continue
                    obs.append({'h': 'sched', 'els': list(kinds), 'points': 3, 'site': site, 'conc': conc,
                                '_weight': 3000, '_budget': 3000.0})
                for kinds in (('co', 'co', 'fail', 'co', 'notif'),):
                    obs.append({'h': 'sched', 'els': list(kinds), 'points': 1, 'site': site, 'conc': conc,
                                '_weight': 1000, '_budget': 1500.0})
    return obs


def finding_key(ob, label, model):
    return f"{ob['h']}/conc={ob['conc']}/{label}"


def make(ob):
    return globals()['h_' + ob['h']](ob)


def h_sched(ob):
    def run(env):
        import pjrpc
        import pjrpc.server
        wire = Wire(env)
        n = len(ob['els'])
        ids = [None if k == 'notif' else env.int(f'id{i}') for i, k in enumerate(ob['els'])]
        real_ids = [x for x in ids if x is not None]
        for a in range(len(real_ids)):
            for b in range(a + 1, len(real_ids)):
                env.assume(real_ids[a] != real_ids[b])
        pending = []           # (label, future)
        trace = []             # ('start'|'end', element index)
        ran = []               # method executions
        inflight = [0, 0]      # current, max
        loop = asyncio.new_event_loop()

        async def suspend(label):
            fut = loop.create_future()
            pending.append((label, fut))
            await fut

        points = ob['points']
        site = ob['site']

        async def co(i):
            ran.append(i)
            if site == 'method':
                for p in range(points):
                    await suspend(('m', i, p))
            return ['val', i]

        async def fail(i):
            ran.append(i)
            if site == 'method':
                for p in range(points):
                    await suspend(('m', i, p))
            raise pjrpc.exc.JsonRpcError(code=1000 + i, message='failed')

        def plain(i):
            ran.append(i)
            return ['val', i]

        def plainfail(i):
            ran.append(i)
            raise TypeError('from the body')

        class V(pjrpc.server.ViewMixin):
            # a class-based view registered WITHOUT context that keeps per-call state on self across a suspension
            async def vw(self, i):
                ran.append(i)
                self.val = ['val', i]
                if site == 'method':
                    for p in range(points):
                        await suspend(('m', i, p))
                return self.val

        async def mw(request, context, handler):
            i = request.params[0]
            trace.append(('start', i))
            inflight[0] += 1
            inflight[1] = max(inflight[1], inflight[0])
            if site == 'middleware':
                await suspend(('mw-in', i))
            r = await handler(request, context)
            if site == 'middleware' and points > 1:
                await suspend(('mw-out', i))
            inflight[0] -= 1
            trace.append(('end', i))
            return r

        async def eh(request, context, error):
            if site == 'handler':
                for p in range(points):
                    await suspend(('eh', request.params[0], p))
            return error

        seen_by_code = []

        async def eh_code(request, context, error):
            seen_by_code.append((request.params[0], error.code))
            return error

        # catch-all handler plus one handler per failing element's code (built with a comprehension: symbolic-safe)
        table = {k: v for k, v in [(None, [eh])] + [(1000 + i, [eh_code]) for i in range(n)]}
        d = pjrpc.server.AsyncDispatcher(middlewares=[mw], error_handlers=table, concurrent_batch=ob['conc'],
                                         **wire.kwargs())
        d.add(co, name='co')
        d.add(fail, name='fail')
        d.add(plain, name='plain')
        d.add(plainfail, name='plainfail')
        d.registry.view(V)
        docs = []
        for i, k in enumerate(ob['els']):
            doc = {'jsonrpc': '2.0', 'method': 'co' if k == 'notif' else ('vw' if k == 'view' else k), 'params': [i]}
            if ids[i] is not None:
                doc['id'] = ids[i]
            docs.append(doc)

        steps = [0]

        async def main():
            task = loop.create_task(d.dispatch(wire.encode(docs)))
            while not task.done():
                for _ in range(6):
                    await asyncio.sleep(0)
                if task.done():
                    break
                if not pending:
                    raise Violation('deadlock-no-pending-suspension', trace)
                c = env.int(f'c{steps[0]}', 0, len(pending) - 1)
                steps[0] += 1
                pick = 0
                for j in range(1, len(pending)):
                    if c == j:
                        pick = j
                label, fut = pending.pop(pick)
                fut.set_result(None)
            return task.result()

        try:
            try:
                out = loop.run_until_complete(main())
            finally:
                loop.close()
        except Violation:
            raise
        except Exception as e:
            raise Violation('raised:' + type(e).__name__, docs)
        env.reached()
        # ---- oracle -------------------------------------------------------------------------------
        if sorted(ran) != list(range(n)):
            raise Violation('method-executions', (ran, n))
        want = []
        for i, k in enumerate(ob['els']):
            if k == 'notif':
                continue
            if k == 'plainfail':
                want.append({'jsonrpc': '2.0', 'id': ids[i], 'error': {'code': -32000, 'message': 'Server error'}})
            elif k == 'fail':
                want.append({'jsonrpc': '2.0', 'id': ids[i], 'error': {'code': 1000 + i, 'message': 'failed'}})
            else:
                want.append({'jsonrpc': '2.0', 'id': ids[i], 'result': ['val', i]})
        if not want:
            if out is not None:
                raise Violation('all-notification-batch-answered', out)
        else:
            if out is None:
                raise Violation('batch-unanswered', docs)
            got = wire.decode(out[0])
            if not same_json(got, want):
                raise Violation('responses-mixed-up-or-out-of-order', (got, want))
            if tuple(out[1]) != tuple(r['error']['code'] if 'error' in r else 0 for r in want):
                raise Violation('codes-out-of-order', (out[1], want))
        fails = sorted(i for i, k in enumerate(ob['els']) if k == 'fail')
        if sorted(seen_by_code) != [(i, 1000 + i) for i in fails]:
            raise Violation('per-code-error-handler-runs', (seen_by_code, fails))
        if not ob['conc']:
            if inflight[1] > 1:
                raise Violation('sequential-mode-overlap', trace)
            starts = [i for t, i in trace if t == 'start']
            if starts != list(range(n)):
                raise Violation('sequential-mode-start-order', trace)
        return [steps[0], inflight[1]]

    return run
