"""
C01 -- the dispatcher answers every request text with a well-formed JSON-RPC 2.0 response (or nothing), never raises.
"""
from __future__ import annotations

import itertools as it

from vlib.explore import Violation
from vlib.server import ELEMENTS, EXC_TYPES, Rig, element
from vlib.wire import KINDS, Wire, build, codes_of, obj, wf_response_document

PROP = 'C01'
QK_J = ('absent', 'int', 'str')
QK_M = ('absent', 'int', 'str')
SCALARS = ('null', 'bool', 'int', 'float', 'str')

BOUNDS = {
    'quick': {
        'loader': 'loader outcomes {JSONDecodeError, non-JSONDecodeError ValueError (int digit limit)} + every scalar kind with a symbolic leaf',
        'object': 'jsonrpc in {absent,int,str} x id in K x method in {absent,int,str} x params in K; symbolic method string decides which registered method (returns / protocol error / arbitrary exception / binds or not) is addressed',
        'array': 'arrays of length 0..2 over 12 element kinds, symbolic int ids, max_batch_size in {unset, symbolic >= 0}',
        'text': 'fully symbolic request text of length <= 2 through the unstubbed loader',
        'dispatchers': 'sync and async',
    },
    'thorough': {
        'loader': 'as quick',
        'object': 'full product K^4, plus an unknown extra member',
        'array': 'length 0..3, string ids (len<=2) as well',
        'text': 'length <= 2',
        'dispatchers': 'sync and async',
    },
}
STUBS = ['S1 wire model (value level) for loader/dumper, S2 loader outcome stub, S3 none for short texts',
         'S4 constant exception texts', 'S5 logging off', 'S8 generated recorder methods', 'S13 format stub']
OUTSIDE = ['parsing of texts longer than 2 characters (only loader outcomes are modelled)', 'nesting deeper than 1 inside params',
           'RecursionError from deeply nested documents', 'user middlewares / error handlers that raise']
ASSUMPTIONS = ['registered methods return JSON-encodable values', 'max_batch_size >= 0 when set']
BUDGET = {'quick': 40.0, 'thorough': 120.0}

MANIFEST = dict(
    text="Bounded symbolic model checking of Dispatcher.dispatch / AsyncDispatcher.dispatch (real code, real event loop): request documents are concrete skeletons "
         "(object member kinds, arrays over a 12-kind element alphabet, loader outcomes) with symbolic ids / method names / params / max_batch_size; "
         "fully symbolic request texts of length <= 2 go through the unstubbed loader. Oracle: nothing raised; None or (text, codes); the document handed to the dumper is a JSON-RPC 2.0 "
         "response document (non-empty array); codes agree with it. Confirmed = holds for all leaf values of the skeleton.",
    ref='5 C01',
    note="JSON text <-> value is the stdlib json (trusted; exercised on one concrete witness per path with real json.dumps/json.loads). Loader failures are modelled as outcomes "
         "(JSONDecodeError, ValueError of the integer digit limit); texts longer than 2 characters are not parsed symbolically. Arrays <= 2 (quick) / 3 (thorough).",
)


def setup():
    from pjrpc.common import exceptions as ex
    ex.DeserializationError.__str__ = lambda self: 'deserialization error'
    ex.IdentityError.__str__ = lambda self: 'identity error'


def obligations(tier):
    obs = []
    disps = ('sync', 'async')
    for d in disps:
        for fault in ('decode', 'value'):
            obs.append({'h': 'loader', 'fault': fault, 'disp': d})
        for k in SCALARS:
            obs.append({'h': 'scalar', 'k': k, 'disp': d})
        obs.append({'h': 'text', 'disp': d, 'n': 2, '_budget': 120.0, '_weight': 1000})
        if tier == 'quick':
            prod = list(it.product(QK_J, KINDS, QK_M, KINDS, (False,)))
            # every other JSON typing of the jsonrpc and of the method member, one member at a time
            prod += [(kj, ki, 'str', kp, False) for kj in KINDS if kj not in QK_J for ki in ('int', 'absent') for kp in ('list1', 'absent')]
            prod += [('str', ki, km, kp, False) for km in KINDS if km not in QK_M for ki in ('int', 'absent') for kp in ('list1', 'absent')]
        else:
            prod = it.product(KINDS, KINDS, KINDS, KINDS, (False, True))
        for kj, ki, km, kp, extra in prod:
            obs.append({'h': 'object', 'k': [kj, ki, km, kp], 'extra': extra, 'disp': d,
                        'pd': 'int' if (kp in ('dict1', 'list1')) else 'absent'})
        for digits, where in it.product((4300, 4301, 5000), ('id', 'id_unknown', 'params', 'batch_id', 'whole')):
            obs.append({'h': 'bigint', 'digits': digits, 'where': where, 'disp': d})
        for exc, shape in it.product(EXC_TYPES, ('single', 'notif', 'batch')):
            obs.append({'h': 'excs', 'exc': exc, 'shape': shape, 'disp': d})
        maxlen = 2 if tier == 'quick' else 3
        for n in range(0, maxlen + 1):
            for combo in it.product(ELEMENTS, repeat=n):
                for mbs in ('unset', 'sym'):
                    if n == 3 and mbs == 'sym' and combo[0] > combo[1]:
                        continue  # thin out the largest layer
                    obs.append({'h': 'array', 'els': list(combo), 'mbs': mbs, 'disp': d, 'idt': 'i', '_weight': 4 ** n})
        if tier == 'thorough':
            for combo in it.product(ELEMENTS, repeat=2):
                obs.append({'h': 'array', 'els': list(combo), 'mbs': 'unset', 'disp': d, 'idt': 's', '_weight': 16})
    return obs


def finding_key(ob, label, model):
    return f"{ob['h']}/{label}"


def make(ob):
    return globals()['h_' + ob['h']](ob)


# ---------------------------------------------------------------------------------------------------
def check_c01(out, wire):
    """out = raw return value of dispatch."""
    if out is None:
        return None
    if not (isinstance(out, tuple) and len(out) == 2):
        raise Violation('return-shape', out)
    text, codes = out
    try:
        doc = wire.decode(text)
    except ValueError as e:
        raise Violation('response-text-not-json', str(e)[:100])
    why = wf_response_document(doc)
    if why:
        raise Violation('malformed:' + why, doc)
    if not isinstance(codes, tuple) or tuple(codes) != codes_of(doc):
        raise Violation('codes-disagree', (doc, codes))
    return doc, codes


def _dispatch(rig, text):
    try:
        return rig.dispatch_text(text)
    except Exception as e:
        raise Violation('raised:' + type(e).__name__, text)


def h_loader(ob):
    def run(env):
        wire = Wire(env, loader_fault=ob['fault'])
        rig = Rig(env, ob['disp'], wire=wire)
        if env.real:
            text = '{"jsonrpc": "2.0", ' if ob['fault'] == 'decode' else '1' * 5000
        else:
            from vlib.wire import Box
            text = Box(None)
        out = _dispatch(rig, text)
        env.reached()
        r = check_c01(out, wire)
        if r is None:
            raise Violation('no-answer-to-unparseable-text')
        return [r[1]]

    return run


def h_scalar(ob):
    def run(env):
        wire = Wire(env)
        rig = Rig(env, ob['disp'], wire=wire)
        doc = build(env, ob['k'], 'doc', 2)
        out = _dispatch(rig, wire.encode(doc))
        env.reached()
        r = check_c01(out, wire)
        if r is None:
            raise Violation('no-answer-to-scalar')
        return [r[1]]

    return run


def h_text(ob):
    def run(env):
        import pjrpc.server
        text = env.str('text', ob['n'])
        # no wire model at all: the real loader (CrossHair's model of json.loads under tracing)
        env_real_wire = Wire(env)
        env_real_wire.real = True
        rig = Rig(env, ob['disp'], wire=env_real_wire)
        out = _dispatch(rig, text)
        env.reached()
        r = check_c01(out, env_real_wire)
        return [r[1]] if r else None

    return run


def h_bigint(ob):
    """Integer literals beyond the interpreter's int <-> str digit limit, at the places where they would flow into the
    response (id, echoed params) or not (method-less documents): concrete texts through the REAL json codec."""
    def run(env):
        n = ob['digits']
        lit = '9' * n
        where = ob['where']
        if where == 'id':
            text = '{"jsonrpc": "2.0", "id": ' + lit + ', "method": "echo", "params": [1]}'
        elif where == 'id_unknown':
            text = '{"jsonrpc": "2.0", "id": -' + lit + ', "method": "nosuch"}'
        elif where == 'params':
            text = '{"jsonrpc": "2.0", "id": 1, "method": "echo", "params": [' + lit + ']}'
        elif where == 'batch_id':
            text = '[{"jsonrpc": "2.0", "id": 1, "method": "echo", "params": [1]}, {"jsonrpc": "2.0", "id": ' + lit + ', "method": "echo", "params": [2]}]'
        else:
            text = lit
        real = Wire(env)
        real.real = True
        with env.untraced():
            rig = Rig(env, ob['disp'], wire=real)
            out = _dispatch(rig, text)
        env.reached()
        r = check_c01(out, real)
        return [r[1]] if r else None

    return run


def h_object(ob):
    kj, ki, km, kp = ob['k']

    def run(env):
        wire = Wire(env)
        rig = Rig(env, ob['disp'], wire=wire, perr_data=ob.get('pd', 'absent'))
        doc = obj(jsonrpc=build(env, kj, 'jsonrpc'), id=build(env, ki, 'id', 2), method=build(env, km, 'method'),
                  params=build(env, kp, 'params'))
        if ob.get('extra'):
            doc['x-extra'] = env.int('extra')
        out = _dispatch(rig, wire.encode(doc))
        env.reached()
        r = check_c01(out, wire)
        return [r[1], len(rig.log)] if r else [None, len(rig.log)]

    return run


def h_excs(ob):
    """The addressed method raises an arbitrary exception of each kind (built-ins, a custom class, the library's own
    validators.ValidationError / json.JSONDecodeError raised by the BODY): never out of dispatch, always a well-formed reply."""
    def run(env):
        wire = Wire(env)
        rig = Rig(env, ob['disp'], wire=wire, exc=ob['exc'])
        boom = {'jsonrpc': '2.0', 'id': env.int('id0'), 'method': 'boom'}
        if ob['shape'] == 'single':
            doc = boom
        elif ob['shape'] == 'notif':
            doc = {'jsonrpc': '2.0', 'method': 'boom'}
        else:
            doc = [boom, {'jsonrpc': '2.0', 'id': env.int('id1'), 'method': 'echo', 'params': [1]}]
            env.assume(doc[0]['id'] != doc[1]['id'])
        out = _dispatch(rig, wire.encode(doc))
        env.reached()
        r = check_c01(out, wire)
        return [r[1], len(rig.log)] if r else [None, len(rig.log)]

    return run


def h_array(ob):
    def run(env):
        wire = Wire(env)
        mbs = None
        if ob['mbs'] == 'sym':
            mbs = env.int('mbs', 0)
        rig = Rig(env, ob['disp'], wire=wire, max_batch_size=mbs)
        docs = [element(env, k, i, ob['idt'])[0] for i, k in enumerate(ob['els'])]
        out = _dispatch(rig, wire.encode(docs))
        env.reached()
        r = check_c01(out, wire)
        return [r[1], len(rig.log)] if r else [None, len(rig.log)]

    return run
