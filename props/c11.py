"""
C11 -- the synchronous and the asynchronous halves behave identically (differential; no reference model involved).

Both halves are run INSIDE ONE symbolic path on the same leaves and their observations are compared.
"""
from __future__ import annotations

import itertools as it

from vlib.client import ClientRig, Raw
from vlib.explore import Violation, is_symbolic_value
from vlib.server import ELEMENTS, Rig, element
from vlib.wire import KINDS, UNDECODABLE, Box, Wire, build, obj, same_json

PROP = 'C11'
MANIFEST = dict(
    text="Differential symbolic check: for every obligation the synchronous and the asynchronous implementation (Dispatcher vs AsyncDispatcher with coroutine methods vs AsyncDispatcher with plain functions; "
         "AbstractClient vs AbstractAsyncClient incl. Batch/AsyncBatch, retry/retry_async, traced wrappers) are executed in the SAME symbolic path on the same z3 leaves and must produce equal response documents, error codes and execution logs "
         "(server) resp. equal request documents, results, exception types, sleep sequences and tracer event sequences (client). Corpus: the object / array / loader-outcome skeletons of C01-C03, the middleware x handler-table x request-kind skeletons of C12, "
         "the response-document skeletons of C08 and the scripted outcome sequences of C09/C19. No oracle about the 'right' answer is involved - only equality.",
    ref='5 C11',
    note="Same bounds as the borrowed corpora (quick tiers). Real asyncio event loop for the asynchronous half.",
)
BOUNDS = {
    'quick': {'server': 'objects: jsonrpc in {absent,int,str} x id in K x method in {absent,int,str} x params in K; arrays of 0..2 elements x max_batch_size {unset, symbolic}; loader outcomes; 21 middleware stacks x 7 handler tables x 6 request kinds',
              'client': 'single responses with 5 id relations x result/error x strict; batch arrays of 0..3 elements for 2 calls; retry/tracer scripts with attempts 0..2 and 4-kind outcome selectors'},
    'thorough': {'server': 'objects: full K^4; arrays 0..3; 85 stacks', 'client': 'attempts 0..3'},
}
STUBS = ['S1', 'S2', 'S4', 'S5', 'S6', 'S7', 'S8', 'S9', 'S13']
OUTSIDE = ['anything outside the borrowed corpora']
ASSUMPTIONS = []
BUDGET = {'quick': 50.0, 'thorough': 200.0}
QK = ('absent', 'int', 'str')


def setup():
    from pjrpc.common import exceptions as ex
    ex.DeserializationError.__str__ = lambda self: 'deserialization error'
    ex.IdentityError.__str__ = lambda self: 'identity error'


def obligations(tier):
    from props import c12
    obs = []
    prod = it.product(QK, KINDS, QK, KINDS) if tier == 'quick' else it.product(KINDS, KINDS, KINDS, KINDS)
    for kj, ki, km, kp in prod:
        obs.append({'h': 'srv_object', 'k': [kj, ki, km, kp], 'pd': 'int' if kp in ('list1', 'dict1') else 'absent'})
    for fault in ('decode', 'value'):
        obs.append({'h': 'srv_loader', 'fault': fault})
    maxlen = 2 if tier == 'quick' else 3
    for n in range(0, maxlen + 1):
        for combo in it.product(ELEMENTS, repeat=n):
            for mbs in ('unset', 'sym'):
                if n == 3 and (mbs == 'sym' or combo[0] > combo[1]):
                    continue
                obs.append({'h': 'srv_array', 'els': list(combo), 'mbs': mbs, '_weight': 4 ** n})
    maxd = 2 if tier == 'quick' else 3
    stacks = [list(c) for n in range(0, maxd + 1) for c in it.product(c12.MW_KINDS, repeat=n)]
    for stack, table, req in it.product(stacks, c12.TABLES, ('ok', 'perr', 'internal', 'notif_perr', 'batch', 'batch2')):
        obs.append({'h': 'srv_chain', 'stack': stack, 'table': table, 'req': req})
    # the asynchronous dispatcher in SEQUENTIAL batch mode (concurrent_batch=False) against the synchronous one
    for stack, table, req in it.product(([], ['P'], ['Q'], ['W'], ['S', 'P'], ['P', 'W']), ('none', 'generic', 'both'), ('batch', 'batch2', 'ok')):
        obs.append({'h': 'srv_chain', 'stack': stack, 'table': table, 'req': req, 'seq': 1})
    # client side
    for rel, payload, strict in it.product(('equal', 'int', 'str', 'null', 'absent'), ('result', 'error', 'garbage'), (True, False)):
        obs.append({'h': 'cli_single', 'rel': rel, 'payload': payload, 'strict': strict})
    for n in range(0, 4):
        for combo in it.product(('ok_i', 'err_i', 'ok_s', 'ok_n'), repeat=n):
            if n == 3 and combo.count('ok_i') + combo.count('err_i') < 2:
                continue
            for strict in (True, False):
                obs.append({'h': 'cli_batch', 'els': list(combo), 'strict': strict, '_weight': 4 ** n})
    obs.append({'h': 'cli_batch', 'els': None, 'strict': True})          # batch-level error
    for fault, add in it.product((False, True), repeat=2):
        obs.append({'h': 'cli_batch_reuse', 'fault': fault, 'add': add})
    nmax = 2 if tier == 'quick' else 3
    terms = (('ok', 'errresp'), ('unlisted_exc', 'undecodable'), ('nonresponse', 'mismatch'))
    for req, term, ntr in it.product(('single', 'batch', 'notif', 'call', 'batchcall'), terms, (0, 2)):
        obs.append({'h': 'cli_script', 'req': req, 'term': list(term), 'ntr': ntr, 'nmax': nmax, '_weight': 20})
    return obs


def finding_key(ob, label, model):
    return f"{ob['h']}/{label}"


def make(ob):
    return globals()['h_' + ob['h']](ob)


# ---- server ------------------------------------------------------------------------------------------
def _strip(doc):
    """Drop error.data strings (texts built from exception messages, S4): comparing two symbolic strings enumerates lengths."""
    if isinstance(doc, list):
        return [_strip(d) for d in doc]
    if isinstance(doc, dict) and isinstance(doc.get('error'), dict) and isinstance(doc['error'].get('data'), str) \
            and is_symbolic_value(doc['error']['data']):          # concrete texts (e.g. the reason a batch was rejected) ARE compared
        e = {k: v for k, v in doc['error'].items() if k != 'data'}
        return {**{k: v for k, v in doc.items() if k != 'error'}, 'error': {**e, 'data': '<text>'}}
    return doc


def _compare_servers(env, mk_rig, text_for, what):
    """mk_rig(kind, plain) -> Rig ; text_for(rig) -> request text."""
    outs = []
    for kind, plain in (('sync', False), ('async', False), ('async', True)):
        rig = mk_rig(kind, plain)
        try:
            out = rig.dispatch_text(text_for(rig))
            res = None if out is None else (rig.wire.decode(out[0]), tuple(out[1]))
            outs.append(('ok', res, list(rig.log)))
        except Exception as e:
            outs.append(('raised:' + type(e).__name__, None, list(rig.log)))
    env.reached()
    names = ('sync', 'async-coroutines', 'async-plain-functions')
    base = outs[0]
    for name, o in zip(names[1:], outs[1:]):
        if o[0] != base[0]:
            raise Violation(f'outcome-differs:{name}', (what, base[0], o[0]))
        if (o[1] is None) != (base[1] is None):
            raise Violation(f'answered-vs-unanswered:{name}', (what, base[1], o[1]))
        if o[1] is not None:
            if not same_json(_strip(o[1][0]), _strip(base[1][0])):
                raise Violation(f'response-document-differs:{name}', (what, base[1][0], o[1][0]))
            if o[1][1] != base[1][1]:
                raise Violation(f'error-codes-differ:{name}', (what, base[1][1], o[1][1]))
        if not same_json(o[2], base[2]):
            raise Violation(f'executions-differ:{name}', (what, base[2], o[2]))
    return [base[0], None if base[1] is None else list(base[1][1]), len(base[2])]


def h_srv_object(ob):
    kj, ki, km, kp = ob['k']

    def run(env):
        doc = obj(jsonrpc=build(env, kj, 'jsonrpc'), id=build(env, ki, 'id', 2), method=build(env, km, 'method'),
                  params=build(env, kp, 'params'))
        return _compare_servers(env, lambda kind, plain: Rig(env, kind, perr_data=ob['pd'], plain_on_async=plain),
                                lambda rig: rig.wire.encode(doc), doc)

    return run


def h_srv_loader(ob):
    def run(env):
        def mk(kind, plain):
            return Rig(env, kind, wire=Wire(env, loader_fault=ob['fault']), plain_on_async=plain)

        def text(rig):
            if env.real:
                return '{"jsonrpc": "2.0", ' if ob['fault'] == 'decode' else '1' * 5000
            return Box(None)
        return _compare_servers(env, mk, text, ob['fault'])

    return run


def h_srv_array(ob):
    def run(env):
        mbs = env.int('mbs', 0) if ob['mbs'] == 'sym' else None
        docs = [element(env, k, i, 'i')[0] for i, k in enumerate(ob['els'])]
        return _compare_servers(env, lambda kind, plain: Rig(env, kind, max_batch_size=mbs, plain_on_async=plain),
                                lambda rig: rig.wire.encode(docs), docs)

    return run


def h_srv_chain(ob):
    def run(env):
        from props import c12
        req = ob['req']
        rid = env.int('rid')

        def el(kind, id_):
            d = {'jsonrpc': '2.0'}
            if kind == 'ok':
                d.update(method='echo', params=[env.int('p')])
            elif kind == 'perr':
                d.update(method='perr', params=[1])
            elif kind == 'internal':
                d.update(method='vfail')
            if id_ is not None:
                d['id'] = id_
            return d

        if req in ('ok', 'perr', 'internal'):
            doc = el(req, rid)
        elif req == 'notif_perr':
            doc = el('perr', None)
        elif req == 'batch2':
            rid2 = env.int('rid2')
            env.assume(rid2 != rid)
            doc = [el('perr', rid), el('perr', rid2), el('internal', None)]
        else:
            rid2 = env.int('rid2')
            env.assume(rid2 != rid)
            doc = [el('ok', rid), el('perr', rid2)]
        logs = {}

        def mk(kind, plain):
            is_async = kind == 'async'
            log = []
            ctx = 'CTX'
            mws = [c12._mk_middleware(i, k, log, ctx, is_async) for i, k in enumerate(ob['stack'])]
            table, _, _ = c12._table(env, ob['table'], log, ctx, is_async)
            rig = Rig(env, kind, middlewares=mws, error_handlers=table, plain_on_async=plain, suspend=False,
                      extra_kwargs={'concurrent_batch': False} if (ob.get('seq') and is_async) else None)      # event ORDER across batch elements is compared: no interleaving (C10 explores the schedules)
            rig.log = log          # compare the middleware / handler event log instead of the method log
            rig._ctx = ctx
            return rig

        def text(rig):
            return rig.wire.encode(doc)

        # dispatch with the context object
        outs = []
        for kind, plain in (('sync', False), ('async', False), ('async', True)):
            rig = mk(kind, plain)
            try:
                out = rig.dispatch_text(text(rig), 'CTX')
                res = None if out is None else (rig.wire.decode(out[0]), tuple(out[1]))
                outs.append(('ok', res, list(rig.log)))
            except Exception as e:
                outs.append(('raised:' + type(e).__name__, None, list(rig.log)))
        env.reached()
        base = outs[0]
        for name, o in zip(('async-coroutines', 'async-plain-functions'), outs[1:]):
            if o[0] != base[0] or (o[1] is None) != (base[1] is None):
                raise Violation(f'outcome-differs:{name}', (doc, base[0], o[0]))
            if o[1] is not None and (not same_json(_strip(o[1][0]), _strip(base[1][0])) or o[1][1] != base[1][1]):
                raise Violation(f'response-differs:{name}', (doc, base[1], o[1]))
            if not same_json(o[2], base[2]):
                raise Violation(f'middleware-handler-events-differ:{name}', (doc, base[2], o[2]))
        return [base[0], len(base[2])]

    return run


# ---- client ------------------------------------------------------------------------------------------
def _outcome_of(fn):
    """('ok', value) | ('exc', type name, args repr-free)"""
    import asyncio
    try:
        return ('ok', fn())
    except (KeyboardInterrupt, asyncio.CancelledError, Exception) as e:
        return ('exc', type(e).__name__, e)


def _cmp_value(a, b):
    import pjrpc
    if isinstance(a, pjrpc.common.v20.Response) and isinstance(b, pjrpc.common.v20.Response):
        return same_json(a.to_json(), b.to_json()) and (a.related is None) == (b.related is None)
    if isinstance(a, pjrpc.common.v20.BatchResponse) and isinstance(b, pjrpc.common.v20.BatchResponse):
        return same_json(a.to_json(), b.to_json()) and [r.related is None for r in a] == [r.related is None for r in b]
    if isinstance(a, tuple) and isinstance(b, tuple):
        return same_json(list(a), list(b))
    return same_json(a, b)


def _compare_clients(env, mk_script, call, what, tracers=0, client_kw=None):
    import asyncio
    from pjrpc.client import retry as retry_mod
    from pjrpc.client.tracer import Tracer
    obs = []
    for kind in ('sync', 'async'):
        events = []

        class Rec(Tracer):
            def __init__(self, i):
                self.i = i

            def on_request_begin(self, trace_context, request):
                events.append((self.i, 'begin'))

            def on_request_end(self, trace_context, request, response):
                events.append((self.i, 'end', response is None))

            def on_error(self, trace_context, request, error):
                events.append((self.i, 'error', type(error).__name__))

        sleeps = []

        class Clock:
            def sleep(self, d):
                sleeps.append(d)

        class AClock:
            async def sleep(self, d):
                sleeps.append(d)

            def __getattr__(self, name):
                return getattr(asyncio, name)

        saved = (retry_mod.time, retry_mod.asyncio)
        retry_mod.time, retry_mod.asyncio = Clock(), AClock()
        try:
            kw = dict(client_kw(kind) if client_kw else {})
            if tracers:
                kw['tracers'] = [Rec(i) for i in range(tracers)]
            rig = ClientRig(env, kind, mk_script(kind), **kw)
            out = _outcome_of(lambda: rig.do(call))
        finally:
            retry_mod.time, retry_mod.asyncio = saved
        obs.append((out, list(rig.sent), list(rig.flags), sleeps, events))
    env.reached()
    a, b = obs
    if not same_json(a[1], b[1]) or a[2] != b[2]:
        raise Violation('request-documents-differ', (what, a[1], b[1]))
    if a[0][0] != b[0][0]:
        raise Violation('returns-vs-raises', (what, a[0][:2], b[0][:2]))
    if a[0][0] == 'exc':
        if a[0][1] != b[0][1]:
            raise Violation('exception-types-differ', (what, a[0][1], b[0][1]))
        ea, eb = a[0][2], b[0][2]
        if hasattr(ea, 'code') and (ea.code != eb.code or ea.message != eb.message):
            raise Violation('error-fields-differ', (what, ea, eb))
    elif not _cmp_value(a[0][1], b[0][1]):
        raise Violation('results-differ', (what, a[0][1], b[0][1]))
    if a[3] != b[3]:
        raise Violation('sleeps-differ', (what, a[3], b[3]))
    if a[4] != b[4]:
        raise Violation('tracer-events-differ', (what, a[4], b[4]))
    return [a[0][0], len(a[1]), len(a[3]), len(a[4])]


def h_cli_single(ob):
    def run(env):
        import pjrpc
        rid = env.int('rid')
        body = {'jsonrpc': '2.0'}
        rel = ob['rel']
        if rel == 'equal':
            body['id'] = rid
        elif rel == 'int':
            body['id'] = env.int('xid')
        elif rel == 'str':
            body['id'] = env.str('sxid', 2)
        elif rel == 'null':
            body['id'] = None
        if ob['payload'] == 'result':
            body['result'] = env.int('res')
        elif ob['payload'] == 'error':
            body['error'] = {'code': env.int('code'), 'message': env.str('msg', 2)}
        return _compare_clients(env, lambda kind: (lambda n, doc, notif: body),
                                lambda c: c.send(pjrpc.Request('m', [1], id=rid)), body, tracers=1,
                                client_kw=lambda kind: {'strict': ob['strict']})

    return run


def h_cli_batch(ob):
    def run(env):
        if ob['els'] is None:
            body = {'jsonrpc': '2.0', 'id': None, 'error': {'code': env.int('code'), 'message': 'm'}}
        else:
            body = []
            for j, k in enumerate(ob['els']):
                if k == 'ok_i':
                    body.append({'jsonrpc': '2.0', 'id': env.int(f'id{j}'), 'result': env.int(f'r{j}')})
                elif k == 'err_i':
                    body.append({'jsonrpc': '2.0', 'id': env.int(f'id{j}'), 'error': {'code': 100 + j, 'message': 'e'}})
                elif k == 'ok_s':
                    body.append({'jsonrpc': '2.0', 'id': env.str(f'sid{j}', 2), 'result': env.int(f'r{j}')})
                else:
                    body.append({'jsonrpc': '2.0', 'id': None, 'result': env.int(f'r{j}')})
        return _compare_clients(env, lambda kind: (lambda n, doc, notif: body),
                                lambda c: c.batch.add('m', 1).notify('n', 0).add('m', a=2).call(), body, tracers=1,
                                client_kw=lambda kind: {'strict': ob['strict']})

    return run


def h_cli_batch_reuse(ob):
    """ONE batch object used twice (after a transport fault, or with more calls added in between): both halves must put
    the same documents on the wire and hand back the same results."""
    def run(env):
        import pjrpc.client

        def mk_script(kind):
            def script(n, doc, notif):
                if n == 0 and ob['fault']:
                    raise ConnectionError('first send fails')
                if notif:
                    return None
                return [{'jsonrpc': '2.0', 'id': e['id'], 'result': e['params'][0]} for e in doc if 'id' in e]
            return script

        x, y = env.int('x'), env.int('y')

        def call(c):
            b = c.batch.add('m', x)
            steps = [lambda: b.call(), (lambda: b.add('m', y).call()) if ob['add'] else (lambda: b.call())]
            if isinstance(c, pjrpc.client.AbstractAsyncClient):
                async def go():
                    outs = []
                    for st in steps:
                        try:
                            r = await st()
                            outs.append(['ok', None if r is None else list(r)])
                        except ConnectionError:
                            outs.append(['exc', 'ConnectionError'])
                    return outs
                return go()
            outs = []
            for st in steps:
                try:
                    r = st()
                    outs.append(['ok', None if r is None else list(r)])
                except ConnectionError:
                    outs.append(['exc', 'ConnectionError'])
            return outs

        return _compare_clients(env, mk_script, call, ('reuse', ob['fault'], ob['add']), tracers=1)

    return run


def h_cli_script(ob):
    def run(env):
        import pjrpc
        from pjrpc.client import retry as retry_mod
        n = env.int('attempts', 0, ob['nmax'])
        kinds = ['exc', 'code'] + ob['term']
        is_batch = ob['req'] in ('batch', 'batchcall')

        def mk_script(kind):
            def script(k, doc, notif):
                sel = env.int(f'o{k}', 0, len(kinds) - 1)
                ok = kinds[0]
                for j in range(1, len(kinds)):
                    if sel == j:
                        ok = kinds[j]
                if ok == 'exc':
                    raise TimeoutError(f'a{k}')
                if ok == 'unlisted_exc':
                    raise ConnectionError(f'a{k}')
                if notif:
                    return None
                if ok == 'undecodable':
                    return Raw(UNDECODABLE)
                if ok == 'nonresponse':
                    return {'jsonrpc': '2.0', 'id': 1}
                rid = 1
                if ok == 'mismatch':
                    rid = env.int(f'rid{k}')
                    env.assume(rid != 1)
                if ok in ('code', 'errresp'):
                    body = {'jsonrpc': '2.0', 'id': rid, 'error': {'code': 2000 if ok == 'code' else 2001, 'message': 'm'}}
                    if is_batch and ok == 'code':
                        body['id'] = None
                        return body
                else:
                    body = {'jsonrpc': '2.0', 'id': rid, 'result': k}
                return [body] if is_batch else body
            return script

        def client_kw(kind):
            return {'retry_strategy': retry_mod.RetryStrategy(
                backoff=retry_mod.ExponentialBackoff(attempts=n, base=1.0, factor=2.0), codes={2000}, exceptions={TimeoutError})}

        req = ob['req']
        if req == 'single':
            call = lambda c: c.send(pjrpc.Request('m', [1], id=1))  # noqa: E731
        elif req == 'batch':
            call = lambda c: c.batch.send(pjrpc.BatchRequest(pjrpc.Request('m', [1], id=1)))  # noqa: E731
        elif req == 'notif':
            call = lambda c: c.notify('m', 1)  # noqa: E731
        elif req == 'call':
            call = lambda c: c.proxy.m(1, 2)  # noqa: E731
        else:
            call = lambda c: c.batch.add('m', 1).call()  # noqa: E731
        return _compare_clients(env, mk_script, call, (req, ob['term']), tracers=ob['ntr'], client_kw=client_kw)

    return run
