"""
C13 -- requests are independent: nothing leaks from one dispatch into the next (inductive step).

Invariant: the fingerprint of everything a dispatch can read besides its arguments -- registry, middleware chain, handler
table, the error-class registry, every module-level mutable object or library object instance (e.g. the default validator) and every functools.lru_cache found by scanning the
imported pjrpc modules (sizes included) -- is the same before and after EVERY single dispatch.  Because the fingerprint
is unchanged by each step, histories of any length follow by induction.
"""
from __future__ import annotations

import itertools as it
import os

from vlib.explore import Violation
from vlib.server import run_coro
from vlib.wire import KINDS, Wire, build, obj, same_json

PROP = 'C13'
ENGINE = {'live_lru': True}       # S14: CrossHair's patch that bypasses functools.lru_cache while tracing is removed
MANIFEST = dict(
    text="Inductive-step symbolic check on the real dispatchers: for every request skeleton (object members over the kind alphabet with a symbolic method name that the solver resolves to a plain function, a context-taking function, a class-based view method, "
         "a JSON-schema validated method or no method; 0..2-element batches) one dispatch with a FRESH context object must leave the fingerprint of all library-held state unchanged (a deep structural snapshot of everything reachable from the dispatcher object - registry, Method objects and their attributes, middleware chain, handler table -, the "
         "error-class registry, every module-level mutable object or library object instance (e.g. the default validator) and every functools.lru_cache of the imported pjrpc modules incl. their sizes -- found by a scan that is recomputed on every run), a symbolic probe request dispatched afterwards must be answered exactly as on a fresh dispatcher, "
         "and (on each path's concrete witness, in the plain interpreter) the context object must be collectable after gc. Also: a first request to a method that fails inside the library's preparation for that method (a user exclusion hook raising for that one request) leaves nothing half-done behind. Unchanged fingerprint per step => histories of any length, N in {1, 10, 1000} included, by induction.",
    ref='5 C13',
    note="NOT covered (no thread model in a Python-level symbolic executor): dispatching from several threads. NOT covered: PydanticValidator (compiled pydantic_core; unusable under the installed pydantic). "
         "'Collectable by the GC' is decided on the concrete witness of every path (weakref + gc.collect), not by the solver. S14: lru_cache live under tracing (cache keys in pjrpc are concrete objects).",
)
BOUNDS = {
    'quick': {'step requests': 'jsonrpc in {str, symbolic other} x id in {absent,int,str,bool} x method symbolic str (12 registered methods incl. a context-less view whose instances hold per-request scratch state, one that raises an arbitrary exception while holding the context, a view method with the JSON-schema validator, one with defaulted positional-only parameters and two without parameters) x params in K; batches of 0..2 elements over 7 element kinds', 'probe': 'after a concrete first request to each method kind: method symbolic (unbounded string), params in {[int], [int,2,3], {"x": int}}',
              'dispatchers': 'sync, async'},
    'thorough': {'step requests': 'jsonrpc in K x id in K x method in {absent,int,str} x params in K', 'probe': 'as quick', 'dispatchers': 'sync, async'},
}
STUBS = ['S1', 'S4 (+ jsonschema.ValidationError.__str__ constant)', 'S5', 'S13', 'S14 live lru_cache']
OUTSIDE = ['threads', 'PydanticValidator', 'methods that keep state of their own']
ASSUMPTIONS = []
BUDGET = {'quick': 40.0, 'thorough': 120.0}
ELS = ('echo', 'ctxm', 'vm', 'js', 'vjs', 'nosuch', 'notif_vm', 'pos', 'whoami', 'ping', 'boomctx', 'push')


def setup():
    import jsonschema
    from pjrpc.common import exceptions as ex
    ex.DeserializationError.__str__ = lambda self: 'deserialization error'
    ex.IdentityError.__str__ = lambda self: 'identity error'
    jsonschema.ValidationError.__str__ = lambda self: 'schema violation'


def obligations(tier):
    obs = []
    for disp in ('sync', 'async'):
        if tier == 'quick':
            prod = it.product(('str',), ('absent', 'int', 'str', 'bool'), ('str',), KINDS)
        else:
            prod = it.product(KINDS, KINDS, ('absent', 'int', 'str'), KINDS)
        for kj, ki, km, kp in prod:
            obs.append({'h': 'step', 'disp': disp, 'k': [kj, ki, km, kp]})
        for first in ('echo', 'ctxm', 'vm', 'js', 'vjs', 'pos', 'nosuch', 'whoami', 'ping', 'boomctx', 'push', 'bad', 'nosuch2', 'nosuch3'):
            obs.append({'h': 'probe', 'disp': disp, 'first': first, '_budget': 90.0})
        for names, batch in it.product((['u1'], ['u1', 'u2', 'u3'], ['x.y', 'x.z'], ['', ' ', '%s']), (False, True)):
            obs.append({'h': 'names', 'disp': disp, 'names': names, 'batch': batch})
        for passing, passing2 in it.product(('pos', 'named'), repeat=2):
            obs.append({'h': 'disturb', 'disp': disp, 'passing': passing, 'passing2': passing2})
        for n in (0, 1, 2):
            for combo in it.product(ELS, repeat=n):
                obs.append({'h': 'step_batch', 'disp': disp, 'els': list(combo), '_budget': 90.0})
    return obs


def finding_key(ob, label, model):
    return f"{ob['h']}/{label}"


def make(ob):
    return globals()['h_' + ob['h']](ob)


# ---------------------------------------------------------------------------------------------------
class Ctx:
    """per-request context object (weak-referenceable)"""


def _build_dispatcher(env, wire, disp):
    import pjrpc.server
    from pjrpc.server.validators import jsonschema as js_validator
    is_async = disp == 'async'
    log = []
    jsv = js_validator.JsonSchemaValidator()

    if is_async:
        async def echo(x):
            return [x]

        async def ctxm(ctx, x):
            log.append(ctx)
            del log[:]
            return [x]

        @jsv.validate(schema={'type': 'object', 'properties': {'a': {'type': 'integer'}}, 'required': ['a']})
        async def js(a):
            return [a]

        class V(pjrpc.server.ViewMixin):
            def __init__(self, ctx):
                self.ctx = ctx

            async def vm(self, x):
                return [x]

            @jsv.validate(schema={'type': 'object', 'properties': {'a': {'type': 'integer'}}, 'required': ['a']})
            async def vjs(self, a):
                return [a]
    else:
        def echo(x):
            return [x]

        def ctxm(ctx, x):
            return [x]

        @jsv.validate(schema={'type': 'object', 'properties': {'a': {'type': 'integer'}}, 'required': ['a']})
        def js(a):
            return [a]

        class V(pjrpc.server.ViewMixin):
            def __init__(self, ctx):
                self.ctx = ctx

            def vm(self, x):
                return [x]

            @jsv.validate(schema={'type': 'object', 'properties': {'a': {'type': 'integer'}}, 'required': ['a']})
            def vjs(self, a):
                return [a]

    def mw_sync(request, context, handler):
        return handler(request, context)

    async def mw_async(request, context, handler):
        return await handler(request, context)

    def eh_sync(request, context, error):
        return error

    async def eh_async(request, context, error):
        return error

    cls = pjrpc.server.AsyncDispatcher if is_async else pjrpc.server.Dispatcher
    d = cls(middlewares=[mw_async if is_async else mw_sync], error_handlers={None: [eh_async if is_async else eh_sync], -32601: [eh_async if is_async else eh_sync],
                             -32602: [eh_async if is_async else eh_sync]},
            **wire.kwargs())
    if is_async:
        async def pos(a, b=10, c=100, /):
            return [a, b, c]
    else:
        def pos(a, b=10, c=100, /):
            return [a, b, c]
    if is_async:
        async def whoami(ctx):
            return 'me'

        async def ping():
            return 'pong'
    else:
        def whoami(ctx):
            return 'me'

        def ping():
            return 'pong'
    if is_async:
        async def boomctx(ctx, x=0):
            raise ValueError('boom')
    else:
        def boomctx(ctx, x=0):
            raise ValueError('boom')
    d.add(boomctx, name='boomctx', context='ctx')      # fails with an arbitrary exception while holding the context
    d.add(whoami, name='whoami', context='ctx')       # context by name, no client parameters at all
    d.add(ping, name='ping')
    d.add(pos, name='pos')
    d.add(echo, name='echo')
    d.add(ctxm, name='ctxm', context='ctx')
    d.add(js, name='js')
    d.registry.view(V, context='ctx')

    # a view registered WITHOUT a context whose instance carries per-request scratch state: every request gets its own instance
    if is_async:
        class SV(pjrpc.server.ViewMixin):
            def __init__(self):
                self.items = []

            async def push(self, x):
                self.items.append(x)
                return list(self.items)
    else:
        class SV(pjrpc.server.ViewMixin):
            def __init__(self):
                self.items = []

            def push(self, x):
                self.items.append(x)
                return list(self.items)
    d.registry.view(SV)

    # a method whose return value has no JSON form: dispatch() raises (outside C01's premise) - but it must not leave anything behind
    if is_async:
        async def bad():
            return {1, 2}
    else:
        def bad():
            return {1, 2}
    d.add(bad, name='bad')
    return d


def _caches_and_globals():
    """Scan the imported pjrpc modules for lru caches and module-level mutable containers."""
    import sys
    caches, globs, insts = {}, {}, {}
    for modname, mod in sorted(sys.modules.items()):
        if not (modname == 'pjrpc' or modname.startswith('pjrpc.')) or mod is None:
            continue
        if modname.startswith('pjrpc.client.integrations') or modname.startswith('pjrpc.server.specs'):
            continue
        for name, val in sorted(vars(mod).items()):
            if name.startswith('__'):
                continue
            if hasattr(val, 'cache_info') and hasattr(val, 'cache_clear'):
                caches[f'{modname}.{name}'] = val
            elif isinstance(val, (dict, list, set)) and getattr(val, '__module__', None) is None:
                globs[f'{modname}.{name}'] = val
            elif not isinstance(val, type) and type(val).__module__.startswith('pjrpc') and hasattr(val, '__dict__') \
                    and not callable(val):
                insts[f'{modname}.{name}'] = val          # e.g. pjrpc.server.dispatcher.default_validator
            elif isinstance(val, type) and val.__module__ == modname:
                for an, av in sorted(vars(val).items()):
                    if hasattr(av, 'cache_info') and hasattr(av, 'cache_clear'):
                        caches[f'{modname}.{name}.{an}'] = av
                    elif isinstance(av, (dict, list, set)) and not an.startswith('__'):
                        globs[f'{modname}.{name}.{an}'] = av
    return caches, globs, insts


class _Id:
    """Identity token that keeps the object alive (so that ids cannot be reused between the two fingerprints)."""
    __slots__ = ('o',)

    def __init__(self, o):
        self.o = o

    def __eq__(self, other):
        return isinstance(other, _Id) and self.o is other.o

    def __hash__(self):
        return id(self.o)


def _deep(obj, depth=0, seen=None):
    """Structural snapshot of everything reachable from `obj` (containers: type, size, children; objects with a
    __dict__: their attributes; leaves: identity tokens).  A dispatch that mutates ANY container hanging off the
    dispatcher - e.g. a list cached on a Method object - changes it."""
    import types
    if seen is None:
        seen = set()
    if obj is None or isinstance(obj, (bool, int, float, str, bytes)):
        return obj
    if depth > 6 or id(obj) in seen:
        return _Id(obj)
    if isinstance(obj, (types.FunctionType, types.BuiltinFunctionType, types.MethodType, type, types.ModuleType)):
        return _Id(obj)
    seen = seen | {id(obj)}
    if isinstance(obj, dict):
        return ('dict', len(obj), [(_deep(k, depth + 1, seen), _deep(v, depth + 1, seen)) for k, v in obj.items()])
    if isinstance(obj, (list, tuple, set, frozenset)):
        return (type(obj).__name__, len(obj), [_deep(x, depth + 1, seen) for x in obj])
    if hasattr(obj, 'func') and hasattr(obj, 'keywords') and hasattr(obj, 'args'):      # functools.partial
        return ('partial', _Id(obj.func), _deep(obj.args, depth + 1, seen), _deep(obj.keywords, depth + 1, seen))
    d = getattr(obj, '__dict__', None)
    if isinstance(d, dict):
        return ('object', _Id(obj), [(k, _deep(v, depth + 1, seen)) for k, v in sorted(d.items())])
    return _Id(obj)


def _fingerprint(d):
    import pjrpc
    caches, globs, insts = _caches_and_globals()
    import logging
    fp = {
        # the process-wide logger registry keeps every logger ever created: names under the library's namespace must not multiply
        'loggers': sorted(k for k in list(logging.Logger.manager.loggerDict) if k == 'pjrpc' or k.startswith('pjrpc.')),
        'module_level_instances': {k: _deep(v) for k, v in insts.items()},
        'deep': _deep(d),
        'registry': [(k, _Id(v)) for k, v in d.registry.items()],
        'middlewares': [_Id(m) for m in d._middlewares],
        'dispatcher_attrs': sorted(((k, _Id(v)) for k, v in vars(d).items()), key=lambda t: t[0]),
        'registry_attrs': sorted(((k, _Id(v)) for k, v in vars(d.registry).items()), key=lambda t: t[0]),
        'handlers': sorted(((repr(k), [_Id(h) for h in v]) for k, v in d._error_handlers.items()), key=lambda t: t[0]),
        'errors_mapping': sorted(((k, _Id(v)) for k, v in type(pjrpc.exc.JsonRpcError).__errors_mapping__.items()), key=lambda t: t[0]),
        'caches': {k: c.cache_info().currsize for k, c in caches.items()},
        'globals': {k: (len(v), [_Id(x) for x in (v.values() if isinstance(v, dict) else v)]) for k, v in globs.items()},
    }
    return fp


def _diff(a, b):
    return [k for k in a if a[k] != b[k]]


def _dispatch(d, disp, text, ctx):
    out = d.dispatch(text, ctx)
    if disp == 'async':
        out = run_coro(out)
    return out


def _step(env, ob, make_doc, probe=False):
    import gc
    import weakref
    wire = Wire(env)
    with env.untraced():
        d = _build_dispatcher(env, wire, ob['disp'])
        fresh = _build_dispatcher(env, wire, ob['disp'])
        # warm-up (set-up, concrete): one dispatch per method kind so that legitimately cached per-method data exists
        for dd in (d, fresh):
            for m, p in (('echo', [1]), ('ctxm', [1]), ('vm', [1]), ('js', {'a': 1}), ('js', {'a': 'x'}), ('nosuch', []), ('pos', [1, 2, 3]), ('ping', []), ('whoami', []), ('vjs', {'a': 1}), ('vjs', {'a': 'x'}), ('boomctx', [1]), ('push', [1])):
                _dispatch(dd, ob['disp'], wire.encode({'jsonrpc': '2.0', 'id': 1, 'method': m, 'params': p}), Ctx())
            try:
                _dispatch(dd, ob['disp'], wire.encode({'jsonrpc': '2.0', 'id': 1, 'method': 'bad'}), Ctx())
            except TypeError:
                pass
        before = _fingerprint(d)
    doc = make_doc()
    ctx = Ctx()
    try:
        out = _dispatch(d, ob['disp'], wire.encode(doc), ctx)
    except TypeError as e:
        if not (isinstance(doc, dict) and doc.get('method') == 'bad'):
            raise Violation('raised:' + type(e).__name__, doc)
        out = None               # tolerated: the method `bad` broke its side of the contract (a result without JSON form);
        #                          what matters is what such a request leaves behind
    except Exception as e:
        raise Violation('raised:' + type(e).__name__, doc)
    with env.untraced():
        after = _fingerprint(d)
    env.reached()
    changed = _diff(before, after)
    if changed:
        if 'caches' in changed:
            grown = [k for k in before['caches'] if before['caches'][k] != after['caches'].get(k)]
            raise Violation('cache-grew:' + ','.join(grown), doc)
        raise Violation('library-state-changed:' + ','.join(changed), doc)
    if not probe:
        if env.real:
            import gc as _gc
            import weakref as _wr
            ref = _wr.ref(ctx)
            del ctx, out
            _gc.collect()
            if ref() is not None:
                raise Violation('context-object-retained-after-dispatch', doc)
        return ['step-ok']
    # probe: answered as on a fresh dispatcher
    pm = env.str('probe.method')
    pp = {'x': env.int('probe.x')} if env.bool('probe.named') else ([env.int('probe.x')] if env.bool('probe.short') else [env.int('probe.x'), 2, 3])
    pdoc = {'jsonrpc': '2.0', 'id': env.int('probe.id'), 'method': pm, 'params': pp}
    if env.bool('probe.noparams'):
        del pdoc['params']
    def _probe(dd):
        try:
            return 'out', _dispatch(dd, ob['disp'], wire.encode(pdoc), Ctx())
        except TypeError:
            return 'TypeError', None         # only the method whose result has no JSON form; must then happen on BOTH dispatchers
        except Exception as e:
            raise Violation('probe-raised:' + type(e).__name__, pdoc)
    (ka, a), (kb, b) = _probe(d), _probe(fresh)
    if ka != kb:
        raise Violation('probe-answer-depends-on-history', (doc, pdoc, ka, kb))
    if ka == 'TypeError' and not (pm == 'bad'):
        raise Violation('probe-raised:TypeError', pdoc)
    if (a is None) != (b is None) or (a is not None and (not same_json(_strip(wire.decode(a[0])), _strip(wire.decode(b[0]))) or a[1] != b[1])):
        raise Violation('probe-answer-depends-on-history', (doc, pdoc, a, b))
    if env.real:
        # decided on the concrete witness: the context object must be collectable once the dispatch has returned
        ref = weakref.ref(ctx)
        del ctx, out, a, b
        gc.collect()
        if ref() is not None:
            raise Violation('context-object-retained-after-dispatch', doc)
    return ['step-ok']


def _strip(doc):
    if isinstance(doc, dict) and isinstance(doc.get('error'), dict) and 'data' in doc['error']:
        return {**doc, 'error': {k: v for k, v in doc['error'].items() if k != 'data'}}
    return doc


def h_step(ob):
    kj, ki, km, kp = ob['k']

    def run(env):
        def make_doc():
            jv = '2.0' if kj == 'str' and not env.bool('badversion') else build(env, kj, 'jsonrpc')
            return obj(jsonrpc=jv, id=build(env, ki, 'id', 2), method=build(env, km, 'method'), params=build(env, kp, 'params'))
        return _step(env, ob, make_doc)

    return run


def h_probe(ob):
    """A concrete first request (one per registered method kind), then a SYMBOLIC probe compared with a fresh dispatcher."""
    def run(env):
        def make_doc():
            m = ob['first']
            params = {'a': 1} if m in ('js', 'vjs') else ([env.int('first.x')] if m not in ('nosuch', 'nosuch2', 'nosuch3', 'whoami', 'ping', 'bad') else [])
            return {'jsonrpc': '2.0', 'id': env.int('first.id'), 'method': m, 'params': params}
        return _step(env, ob, make_doc, probe=True)

    return run


def h_step_batch(ob):
    def run(env):
        def make_doc():
            docs = []
            for i, k in enumerate(ob['els']):
                m = 'vm' if k == 'notif_vm' else k
                d = {'jsonrpc': '2.0', 'method': m}
                if m in ('js', 'vjs'):
                    d['params'] = {'a': env.int(f'p{i}')}
                elif m not in ('whoami', 'ping'):
                    d['params'] = [env.int(f'p{i}')]
                if k != 'notif_vm':
                    d['id'] = env.int(f'id{i}')
                docs.append(d)
            return docs
        return _step(env, ob, make_doc)

    return run


def _add_hk(d, flag, is_async):
    """A method validated by a BaseValidator whose exclusion hook fails while `flag[0]` is set (the hook itself is stateless)."""
    from pjrpc.server.validators import base as vbase

    def hook(name, annotation, default):
        if flag[0] and name == 'b':
            raise RuntimeError('hook failed')
        return False

    v = vbase.BaseValidator(exclude_param=hook)
    if is_async:
        async def hk(a, b=2):
            return [a, b]
    else:
        def hk(a, b=2):
            return [a, b]
    d.add(v.validate(hk), name='hk')


def h_disturb(ob):
    """The FIRST request to a method fails inside the library's own preparation for that method (a user hook raises for that
    one request); the failure is reported, nothing half-done is kept, and later requests are answered as on a fresh dispatcher."""
    def run(env):
        wire = Wire(env)
        is_async = ob['disp'] == 'async'
        flag = [False]
        with env.untraced():
            d = _build_dispatcher(env, wire, ob['disp'])
            fresh = _build_dispatcher(env, wire, ob['disp'])
            _add_hk(d, flag, is_async)
            _add_hk(fresh, [False], is_async)
            before = _fingerprint(d)
        x = env.int('x')
        params = [x] if ob['passing'] == 'pos' else {'a': x}
        doc = {'jsonrpc': '2.0', 'id': 1, 'method': 'hk', 'params': params}
        flag[0] = True
        try:
            first = _dispatch(d, ob['disp'], wire.encode(doc), Ctx())
        except Exception as e:
            raise Violation('raised:' + type(e).__name__, doc)
        finally:
            flag[0] = False
        r = wire.decode(first[0])
        if 'error' not in r:
            raise Violation('failing-preparation-not-reported', r)
        with env.untraced():
            after = _fingerprint(d)
        env.reached()
        changed = _diff(before, after)
        if changed:
            raise Violation('library-state-changed:' + ','.join(changed), doc)
        y = env.int('y')
        pdoc = {'jsonrpc': '2.0', 'id': 2, 'method': 'hk', 'params': [y] if ob['passing2'] == 'pos' else {'a': y, 'b': 5}}
        try:
            a = _dispatch(d, ob['disp'], wire.encode(pdoc), Ctx())
            b = _dispatch(fresh, ob['disp'], wire.encode(pdoc), Ctx())
        except Exception as e:
            raise Violation('probe-raised:' + type(e).__name__, pdoc)
        if not same_json(_strip(wire.decode(a[0])), _strip(wire.decode(b[0]))) or a[1] != b[1]:
            raise Violation('probe-answer-depends-on-history', (doc, pdoc, a, b))
        return ['disturbed-ok']

    return run


_NONCE = it.count()


def h_names(ob):
    """Failing requests whose METHOD NAMES differ from request to request (names the dispatcher never saw before): nothing
    keyed by a client-supplied name may be left behind (the fingerprint includes the process-wide logger registry)."""
    def run(env):
        wire = Wire(env)
        with env.untraced():
            d = _build_dispatcher(env, wire, ob['disp'])
            for m, p in (('echo', [1]), ('nosuch', [])):
                _dispatch(d, ob['disp'], wire.encode({'jsonrpc': '2.0', 'id': 1, 'method': m, 'params': p}), Ctx())
            before = _fingerprint(d)
        nonce = f'{os.getpid()}x{next(_NONCE)}'        # the logger registry is process-wide: never-seen names in EVERY run (also the replay)
        for i, name in enumerate(ob['names']):
            name = name + nonce
            doc = {'jsonrpc': '2.0', 'id': env.int(f'id{i}'), 'method': name, 'params': [i]}
            if ob['batch']:
                doc = [doc, {'jsonrpc': '2.0', 'method': name + 'n', 'params': [i]}]
            try:
                _dispatch(d, ob['disp'], wire.encode(doc), Ctx())
            except Exception as e:
                raise Violation('raised:' + type(e).__name__, doc)
        with env.untraced():
            after = _fingerprint(d)
        env.reached()
        changed = _diff(before, after)
        if changed:
            raise Violation('library-state-changed:' + ','.join(changed), ob['names'])
        return ['names-ok']

    return run
