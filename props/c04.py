"""
C04 -- methods receive exactly the caller arguments plus the server-side context.

Program-quantified: signatures are generated (concrete skeleton); the solver's share is the presence bit of every candidate
key of a named mapping, the length/identity of values, i.e. which subset of names the client sends.
"""
from __future__ import annotations

import itertools as it

from vlib.explore import Violation
from vlib.server import run_coro
from vlib.wire import Wire, same_json

PROP = 'C04'
MANIFEST = dict(
    text="Program-quantified symbolic check of Method.bind / ViewMethod.bind / BaseValidator through the real dispatchers: every syntactically valid signature of <= 3 (quick) / <= 4 (thorough) parameters over "
         "{positional-only, positional-or-keyword, *args, keyword-only, **kw} x defaults, x context {none, by name at each position, positional-first, view constructor; truthy and falsy context objects} x {function, coroutine, plain callable returning a coroutine, view method}, plus the same function registered twice on one dispatcher (with its context setting and as a plain method, either served first); "
         "inputs: positional lists of length 0..5 with symbolic values and named mappings in which the PRESENCE of every candidate key (each parameter name, an unknown name, the context name) is a z3 boolean (all subsets explored). "
         "Oracle: a twin function with the same signature (minus the context) is called directly by Python; TypeError there <=> -32602 and the body did not run; otherwise the method saw exactly the twin's bound arguments plus the server-side context, and the result is returned unchanged.",
    ref='5 C04',
    note="The signature space is enumerated (a solver cannot quantify over programs); values pass through opaquely. Known finding: variadic parameters (see known_findings.json) -- pinned by the repository's own integration tests.",
)
BOUNDS = {
    'quick': {'signatures': '<= 3 parameters (+ context)', 'positional lists': 'length 0..5', 'named': 'all subsets of parameter names + unknown name + context name (presence bits symbolic)',
              'kinds': 'function on the sync dispatcher; coroutine on the async dispatcher and view methods for signatures of <= 2 parameters'},
    'thorough': {'signatures': '<= 4 parameters', 'positional lists': 'length 0..5', 'named': 'as quick', 'kinds': 'all three for all signatures'},
}
STUBS = ['S1', 'S4', 'S5', 'S13']
OUTSIDE = ['signatures with more parameters', 'annotations / validators other than the default (C14)']
ASSUMPTIONS = ['argument values are opaque JSON scalars']
BUDGET = {'quick': 40.0, 'thorough': 120.0}

PO, PK, VP, KO, VK = 'posonly', 'pok', 'varpos', 'kwonly', 'varkw'


def setup():
    from pjrpc.common import exceptions as ex
    ex.DeserializationError.__str__ = lambda self: 'deserialization error'
    ex.IdentityError.__str__ = lambda self: 'identity error'


def signatures(maxn):
    """All valid parameter-kind sequences of length <= maxn with defaults; each item: list of (kind, has_default)."""
    out = []
    for n in range(0, maxn + 1):
        for kinds in it.product((PO, PK, VP, KO, VK), repeat=n):
            order = [{PO: 0, PK: 1, VP: 2, KO: 3, VK: 4}[k] for k in kinds]
            if order != sorted(order) or kinds.count(VP) > 1 or kinds.count(VK) > 1:
                continue
            choices = [((False,) if k in (VP, VK) else (False, True)) for k in kinds]
            for defs in it.product(*choices):
                # positional parameters: no non-default after a default
                seen_default, ok = False, True
                for k, d in zip(kinds, defs):
                    if k in (PO, PK):
                        if d:
                            seen_default = True
                        elif seen_default:
                            ok = False
                if ok:
                    out.append(list(zip(kinds, defs)))
    return out


def obligations(tier):
    obs = []
    maxn = 3 if tier == 'quick' else 4
    for sig in signatures(maxn):
        n = len(sig)
        ctx_modes = [('none', None)]
        for pos in range(n + 1):
            ctx_modes.append(('name', pos))     # context parameter inserted at position `pos` (kind chosen to fit)
        ctx_modes.append(('positional', 0))
        ctx_modes.append(('view', None))
        for cm, cpos in ctx_modes:
            light = tier == 'quick' and n == 3 and cm == 'name' and cpos not in (0, n)
            if light:
                continue
            kinds = ['func']
            if tier != 'quick' or n <= 2:
                kinds.append('coro')
            for fk in kinds:
                if cm == 'view':
                    fk = 'view' if fk == 'func' else 'view_async'
                base = {'h': 'bind', 'sig': [list(p) for p in sig], 'ctx': cm, 'cpos': cpos, 'fk': fk}
                for ln in range(0, 6):
                    if tier == 'quick' and n == 3 and ln in (4,):
                        continue
                    obs.append(dict(base, inp='list', ln=ln))
                obs.append(dict(base, inp='named', _weight=8))
                if cm in ('name', 'positional') and not ({VP, VK} & {k for k, _ in sig}) and n <= (2 if tier == 'quick' else 3):
                    # the SAME function object also registered as a plain method (its 'ctx' an ordinary parameter there);
                    # whichever registration is served first must not decide how the other binds
                    obs.append(dict(base, inp='list', ln=n, twice=1))
                    obs.append(dict(base, inp='named', twice=1, _weight=8))
                if fk == 'coro' and cm in ('none', 'name') and n <= 2:
                    wb = dict(base, fk='wcoro')
                    obs.append(dict(wb, inp='list', ln=n))
                    obs.append(dict(wb, inp='named', _weight=8))
                if cm == 'view' and n >= 1 and not ({VP, VK} & {k for k, _ in sig}) and n <= (2 if tier == 'quick' else 3):
                    obs.append(dict(base, inp='list', ln=n, same=1))
                    obs.append(dict(base, inp='list', ln=n - 1, same=1))
                    obs.append(dict(base, inp='named', same=1, _weight=8))
                if cm != 'none' and (n <= 1 or tier != 'quick'):
                    # the same with a FALSY context object ({}): it is still the context the method must receive
                    obs.append(dict(base, inp='list', ln=min(n, 1), ctxv='falsy'))
                    obs.append(dict(base, inp='named', ctxv='falsy', _weight=8))
    return obs


def _features(ob):
    """Which variadic kinds the signature has (the known finding is keyed by them), else whether it has positional-only."""
    ks = {p[0] for p in ob['sig']}
    f = []
    if VP in ks:
        f.append('VAR_POSITIONAL')
    if VK in ks:
        f.append('VAR_KEYWORD')
    if not f and PO in ks:
        f.append('POSITIONAL_ONLY')
    return '+'.join(f) or 'plain'


def finding_key(ob, label, model):
    return f"bind/{_features(ob)}/{label}"


def make(ob):
    return globals()['h_' + ob['h']](ob)


# ---------------------------------------------------------------------------------------------------
def _build(ob):
    """Returns dict(src pieces) describing method and twin signatures."""
    names = []
    params = []          # (name, kind, default)
    for i, (k, d) in enumerate(ob['sig']):
        name = {VP: 'rest', VK: 'extra'}.get(k, f'p{i}')
        params.append((name, k, d))
    ctx_name = None
    if ob.get('same'):
        # a view method with an ordinary parameter named like the view's context ('c'): for the METHOD it is a caller argument
        for i, (name, k, d) in enumerate(params):
            if k not in (VP, VK):
                params[i] = ('c', k, d)
                break
    if ob['ctx'] == 'name':
        pos = ob['cpos']
        # kind that keeps the signature valid at that position: same as the neighbour to the left, else pok / kwonly
        left = params[pos - 1][1] if pos > 0 else None
        if left in (None, PO, PK):
            # must not follow a parameter with default unless it has one -> give it a default when needed
            need_default = any(d for (_, k, d) in params[:pos] if k in (PO, PK))
            right_po = pos < len(params) and params[pos][1] == PO
            kind = PO if right_po else PK
            params.insert(pos, ('ctx', kind, need_default))
        elif left in (VP, KO):
            params.insert(pos, ('ctx', KO, False))
        else:
            return None     # nothing may follow **kw
        ctx_name = 'ctx'
    elif ob['ctx'] == 'positional':
        first = params[0][1] if params else None
        params.insert(0, ('ctx', PO if first == PO else PK, False))
        ctx_name = 'ctx'
    return params, ctx_name


def _render(params):
    parts, seen_po, seen_star = [], False, False
    n = len(params)
    for i, (name, k, d) in enumerate(params):
        if k == KO and not seen_star:
            parts.append('*')
            seen_star = True
        if k == VP:
            parts.append('*' + name)
            seen_star = True
        elif k == VK:
            parts.append('**' + name)
        else:
            parts.append(name + ('=' + repr('D' + name) if d else ''))
        if k == PO and (i + 1 == n or params[i + 1][1] != PO):
            parts.append('/')
    return ', '.join(parts)


def h_bind(ob):
    built = _build(ob)

    def run(env):
        import pjrpc.server
        if built is None:
            env.reached()
            return 'n/a'
        params, ctx_name = built
        is_view = ob['fk'].startswith('view')
        is_async = ob['fk'] in ('coro', 'view_async', 'wcoro')
        log = []
        names = [p[0] for p in params]
        rec = '(' + ''.join(f'{n}, ' for n in names) + ')'
        client_params = [p for p in params if p[0] != ctx_name]
        twin_src = f"def twin({_render(client_params)}):\n    return ({''.join(p[0] + ', ' for p in client_params)})\n"
        ns = {'log': log}
        exec(twin_src, ns)
        twin = ns['twin']
        kw = 'async def' if is_async else 'def'
        if is_view:
            src = (f"class V(ViewMixin):\n    def __init__(self, c=None):\n        self.c = c\n"
                   f"    {kw} meth(self{', ' if params else ''}{_render(params)}):\n        log.append(({rec}, self.c))\n        return list({rec})\n")
            ns['ViewMixin'] = pjrpc.server.ViewMixin
            exec(src, ns)
        else:
            src = f"{kw} meth({_render(params)}):\n    log.append(({rec}, None))\n    return list({rec})\n"
            exec(src, ns)
            if ob['fk'] == 'wcoro':
                # a plain (non-async) callable that RETURNS a coroutine: an async def behind an ordinary functools.wraps decorator
                import functools
                inner = ns['meth']

                @functools.wraps(inner)
                def wrapper(*a, **k):
                    return inner(*a, **k)
                ns['meth'] = wrapper
        wire = Wire(env)
        cls = pjrpc.server.AsyncDispatcher if is_async else pjrpc.server.Dispatcher
        d = cls(**wire.kwargs())
        CTX = {} if ob.get('ctxv') == 'falsy' else ['server-context']      # a falsy context object is still THE context
        if is_view:
            d.registry.view(ns['V'], context='c')
            method_name = 'meth'
        elif ob['ctx'] == 'name':
            d.add(ns['meth'], name='meth', context='ctx')
        elif ob['ctx'] == 'positional':
            d.add(ns['meth'], name='meth', context='ctx', positional=True)
        else:
            d.add(ns['meth'], name='meth')
        plain_first = None
        if ob.get('twice'):
            d.add(ns['meth'], name='plain')
            exec(f"def twin_all({_render(params)}):\n    return [{''.join(p[0] + ', ' for p in params)}]\n", ns)
            npos = len([p for p in params if p[1] in (PO, PK)])
            plain_vals = [100 + j for j in range(npos)]
            try:
                plain_want = ns['twin_all'](*plain_vals)
            except TypeError:
                plain_want = None

            def plain_call():
                n0 = len(log)
                o = d.dispatch(wire.encode({'jsonrpc': '2.0', 'id': 0, 'method': 'plain', 'params': plain_vals}), CTX)
                o = wire.decode((run_coro(o) if is_async else o)[0])
                if plain_want is None:
                    if 'error' not in o or o['error'].get('code') != -32602 or len(log) != n0:
                        raise Violation('plain-registration:unbindable-call-not-32602', (src, plain_vals, o))
                elif not same_json(o.get('result'), plain_want):
                    raise Violation('plain-registration:args-differ', (src, plain_vals, o, plain_want))
                del log[n0:]

            plain_first = env.bool('plain_first')
            if plain_first:
                plain_call()
        # ---- input ---------------------------------------------------------------------------------
        if ob['inp'] == 'list':
            vals = [env.int(f'v{j}') for j in range(ob['ln'])]
            wire_params = list(vals)
            try:
                want = twin(*vals)
            except TypeError:
                want = None
        else:
            cand = [p[0] for p in client_params if p[1] not in (VP, VK)] + ['zz'] + (['ctx'] if ctx_name else [])
            mapping = {}
            for c in cand:
                if env.bool(f'has_{c}'):
                    mapping = {**mapping, c: env.int(f'val_{c}')}
            wire_params = mapping
            try:
                want = twin(**mapping)
            except TypeError:
                want = None
        doc = {'jsonrpc': '2.0', 'id': 1, 'method': 'meth', 'params': wire_params}
        try:
            out = d.dispatch(wire.encode(doc), CTX)
            if is_async:
                out = run_coro(out)
        except Exception as e:
            raise Violation('raised:' + type(e).__name__, src)
        env.reached()
        rdoc = wire.decode(out[0])
        if want is None:
            if 'error' not in rdoc or rdoc['error'].get('code') != -32602:
                raise Violation('unbindable-call-not-32602', (src, wire_params, rdoc))
            if log:
                raise Violation('body-ran-on-unbindable-call', (src, wire_params))
            if plain_first is False:
                plain_call()
            return ['-32602']
        if 'error' in rdoc:
            raise Violation('bindable-call-refused:' + str(rdoc['error'].get('code')), (src, wire_params, rdoc))
        if len(log) != 1:
            raise Violation('not-executed-once', (src, len(log)))
        got, view_ctx = log[0]
        # expected: twin's values with the server context inserted at the context parameter
        exp, wi = [], 0
        for name, k, dflt in params:
            if name == ctx_name:
                exp.append(CTX)
            else:
                exp.append(want[wi])
                wi += 1
        if len(got) != len(exp):
            raise Violation('args-differ', (src, wire_params))
        for g, e, (name, k, dflt) in zip(got, exp, params):
            if name == ctx_name:
                if g is not CTX:
                    raise Violation('context-not-the-server-context', (src, wire_params))
            elif not same_json(_plain(g), _plain(e)):
                raise Violation('args-differ', (src, wire_params, name))
        if is_view and view_ctx is not CTX:
            raise Violation('view-constructor-context', src)
        want_result = [(_plain(CTX) if name == ctx_name else _plain(e)) for e, (name, k, dflt) in zip(exp, params)]
        if not same_json(rdoc.get('result'), want_result):
            raise Violation('result-not-returned-unchanged', (src, rdoc, want_result))
        if plain_first is False:
            plain_call()
        return ['ok', len(got)]

    return run


def _plain(v):
    if isinstance(v, tuple):
        return [_plain(x) for x in v]
    if isinstance(v, dict):
        return {k: _plain(x) for k, x in v.items()}
    return v
