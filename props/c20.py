"""
C20 -- the pytest mocker answers as configured: round-robin, once, recorded.

Histories from the initial state through the PUBLIC API (PjRpcMocker(...).start(), add / replace / remove, the patched
transport method of a client object, .calls, stop()).  Operation kinds are the concrete skeleton; which (endpoint, method)
pair an operation addresses, `once` flags, replace indices, request ids and argument values are symbolic.
"""
from __future__ import annotations

import itertools as it

from vlib.explore import Violation
from vlib.server import run_coro
from vlib.wire import Wire, same_json

PROP = 'C20'
MANIFEST = dict(
    text="Symbolic check of the real PjRpcMocker through its public API: operation histories (kinds concrete: add result / add error / add callback / replace / remove method / remove endpoint / reset / call / batch call / notification) "
         "of length <= 3 (quick) / <= 4 (thorough); the addressed (endpoint, method) pair of every operation, once flags, replace indices, request ids (int, unbounded) and argument values are z3 variables. "
         "A reference queue model written from the statement (round-robin, once = exactly one use, reply id == request id, -32601 for an unpatched method on a patched endpoint, passthrough / refusal for an endpoint without patches, "
         "element-wise batches, every call recorded) is compared with replies, ConnectionRefusedError / original transport calls and mocker.calls after every step.",
    ref='5 C20',
    note="The mocker's direct json.loads/json.dumps are replaced by the value-level wire model on the symbolic side (S12) and are the real json on the witness/replay side. mock.patch itself runs untraced (it is set-up, not subject). "
         "Replies to notifications and to batch elements that hit an endpoint emptied earlier in the same batch are not asserted (statement silent).",
)
BOUNDS = {
    'quick': {'history': '<= 3 operations over 10 kinds (at most one batch call), first operation is an add on (A, f) or a call; plus 6 targeted histories of 4-5 operations on one (endpoint, method) pair; pairs from {(A,f),(A,g),(B,f)}', 'transport': 'sync and async', 'passthrough': 'on and off'},
    'thorough': {'history': '<= 3 operations in all 4 configurations, 4 operations (>= 2 requests) on the sync / refusing configuration; 6 targeted histories', 'transport': 'sync and async', 'passthrough': 'on and off'},
}
STUBS = ['S5', 'S12 mocker json -> wire model', 'S13', 'mock.patch start/stop executed untraced']
OUTSIDE = ['histories longer than the bound', 'replace / remove of a non-existent patch (raises KeyError/IndexError; unspecified)', 'version strings other than 2.0']
ASSUMPTIONS = ['batch ids are distinct']
BUDGET = {'quick': 60.0, 'thorough': 300.0}

OPS = ('add_r', 'add_e', 'add_c', 'replace', 'remove_m', 'remove_e', 'reset', 'call', 'batch', 'notif')
TARGETED = (
    ('add_r', 'add_r', 'replace', 'call'), ('add_r', 'add_e', 'call', 'call'), ('add_r', 'add_c', 'replace', 'call', 'call'),
    ('add_r', 'add_r', 'remove_m', 'call'), ('add_r', 'call', 'add_r', 'call', 'call'), ('add_r', 'add_r', 'add_r', 'call', 'call'),
    # patches whose configured result is a FALSY value (0, '', [], false, {})
    ('add_z', 'call'), ('add_r', 'add_z', 'call', 'call'), ('add_z', 'add_z', 'add_z', 'call', 'call', 'call'), ('add_r', 'add_z', 'add_z', 'batch'),
    ('add_z', 'add_z', 'add_z', 'add_z', 'add_z', 'batch'),
)
FALSY = (0, '', [], False, {})
PAIRS = (('http://A', 'f'), ('http://A', 'g'), ('http://B', 'f'))


def setup():
    from pjrpc.common import exceptions as ex
    ex.DeserializationError.__str__ = lambda self: 'deserialization error'
    ex.IdentityError.__str__ = lambda self: 'identity error'


def obligations(tier):
    obs = []
    maxlen = 3 if tier == 'quick' else 4
    for transport, pt in it.product(('sync', 'async'), (False, True)):
        for n in range(1, maxlen + 1):
            for rest in it.product(OPS, repeat=n - 1):
                for first in ('add_r', 'call'):
                    if first == 'call' and n > 2:
                        continue
                    ops = [first] + list(rest)
                    if not any(o in ('call', 'batch', 'notif') for o in ops):
                        continue
                    if ops.count('batch') > 1:
                        continue          # two batches in one history do not exhaust within the budget
                    if first == 'call' and n > 1 and ops[1] in ('replace', 'remove_m', 'remove_e', 'reset'):
                        continue          # nothing to replace / remove yet (vacuous)
                    if tier == 'quick' and n == 3 and (transport == 'async' or pt) and \
                            (ops.count('call') + ops.count('batch') < 2 or 'batch' in ops):
                        continue
                    if n == 4 and (transport == 'async' or pt or ops.count('call') + ops.count('batch') + ops.count('notif') < 2
                                   or 'batch' in ops[:2]):
                        continue          # thorough tier: 4-operation histories on the sync / refusing configuration, >= 2 requests
                    obs.append({'h': 'history', 'ops': ops, 'transport': transport, 'pt': pt, '_weight': 3 ** n})
    # targeted longer histories (round-robin over two patches, replace at an index, remove, re-add)
    for ops in TARGETED:
        for transport in ('sync', 'async'):
            obs.append({'h': 'history', 'ops': list(ops), 'transport': transport, 'pt': False, 'fixpair': True, '_weight': 200})
    return obs


def finding_key(ob, label, model):
    return f"{ob['h']}/{label}"


def make(ob):
    return globals()['h_' + ob['h']](ob)


class _WireJson:
    def __init__(self, wire):
        self._w = wire

    def loads(self, text, **kw):
        return self._w.loader(text)

    def dumps(self, value, **kw):
        return self._w.dumper(value)


def h_history(ob):
    def run(env):
        import unittest.mock as um
        import pjrpc
        import pjrpc.client.integrations.pytest as pm
        from vlib import mock_target
        wire = Wire(env)
        saved_json = pm.json
        if not env.real:
            pm.json = _WireJson(wire)
        is_async = ob['transport'] == 'async'
        cls = mock_target.AsyncClient if is_async else mock_target.Client
        mocker = pm.PjRpcMocker(f'vlib.mock_target.{cls.__name__}._request', passthrough=ob['pt'])
        with env.untraced():
            del mock_target.ORIGINAL_CALLS[:]
            mocker.start()
        try:
            return _drive(env, ob, mocker, cls, wire, is_async, um, pjrpc, mock_target)
        finally:
            with env.untraced():
                try:
                    mocker.stop()
                finally:
                    pm.json = saved_json

    return run


def _pick_pair(env, n, first):
    if first:
        return PAIRS[0]
    c = env.int(f'pair{n}', 0, len(PAIRS) - 1)
    pair = PAIRS[0]
    for j in range(1, len(PAIRS)):
        if c == j:
            pair = PAIRS[j]
    return pair


def _drive(env, ob, mocker, cls, wire, is_async, um, pjrpc, mock_target):
    Q = {}            # reference: (endpoint, method) -> list of patches
    REC = {}          # reference: (endpoint, method) -> list of (args, kwargs)

    def has_endpoint(e):
        return any(k[0] == e and Q[k] for k in Q)

    def request(e, text, notif):
        client = cls(e)
        try:
            r = client._request(text, notif)
            if is_async:
                r = run_coro(r)
            return 'ok', r
        except ConnectionRefusedError:
            return 'refused', None
        except Exception as x:
            raise Violation('raised:' + type(x).__name__, ob['ops'])

    def mk_patch(n, kind):
        once = env.bool(f'once{n}')
        p = {'once': once, 'kind': kind, 'n': n}
        if kind == 'r':
            kw = {'result': f'r{n}'}
        elif kind == 'z':
            kw = {'result': FALSY[n % len(FALSY)]}
        elif kind == 'e':
            kw = {'error': pjrpc.exc.JsonRpcError(code=1000 + n, message=f'e{n}')}
        else:
            kw = {'callback': (lambda *a, **k: ['cb', n, list(a), dict(k)])}
        return p, dict(kw, once=once)

    def mk_params(n, j=0):
        x = env.int(f'x{n}_{j}')
        if env.bool(f'named{n}_{j}'):
            return {'a': x}, (), {'a': x}
        return [x], (x,), {}

    def expect_reply(p, rdoc, rid, args, kwargs, where):
        if not isinstance(rdoc, dict) or rdoc.get('jsonrpc') != '2.0':
            raise Violation('reply-not-a-response', (where, rdoc))
        if 'id' not in rdoc or not same_json(rdoc['id'], rid):
            raise Violation('reply-id-differs-from-request-id', (where, rid, rdoc))
        if p['kind'] == 'r':
            if rdoc.get('result') != f"r{p['n']}" or 'error' in rdoc:
                raise Violation('wrong-patch-answered', (where, p['n'], rdoc))
        elif p['kind'] == 'z':
            if 'error' in rdoc or not same_json(rdoc.get('result', 'missing'), FALSY[p['n'] % len(FALSY)]):
                raise Violation('configured-falsy-result-not-returned', (where, p['n'], rdoc))
        elif p['kind'] == 'e':
            if 'error' not in rdoc or rdoc['error'].get('code') != 1000 + p['n'] or 'result' in rdoc:
                raise Violation('wrong-patch-answered', (where, p['n'], rdoc))
        else:
            if not same_json(rdoc.get('result'), ['cb', p['n'], list(args), dict(kwargs)]) or 'error' in rdoc:
                raise Violation('wrong-callback-value', (where, p['n'], rdoc))

    def model_call(e, m):
        """Reference step for one element; returns the patch used or 'notfound' or 'empty-endpoint'."""
        if not has_endpoint(e):
            return 'empty-endpoint'
        q = Q.get((e, m))
        if not q:
            return 'notfound'
        p = q.pop(0)
        if not p['once']:
            q.append(p)
        return p

    for n, op in enumerate(ob['ops']):
        e, m = _pick_pair(env, n, (n == 0 and op.startswith('add')) or ob.get('fixpair', False))
        where = (n, op, e, m)
        if op in ('add_r', 'add_e', 'add_c', 'add_z'):
            p, kw = mk_patch(n, op[-1])
            mocker.add(e, m, **kw)
            Q.setdefault((e, m), []).append(p)
        elif op == 'replace':
            q = Q.get((e, m))
            env.assume(bool(q))
            idx = env.int(f'idx{n}', 0, len(q) - 1)
            p, kw = mk_patch(n, 'r')
            mocker.replace(e, m, idx=idx, **kw)
            for j in range(len(q)):
                if idx == j:
                    q[j] = p
        elif op == 'remove_m':
            env.assume(bool(Q.get((e, m))))
            mocker.remove(e, m)
            del Q[(e, m)]
        elif op == 'remove_e':
            env.assume(has_endpoint(e))
            mocker.remove(e)
            for k in [k for k in Q if k[0] == e]:
                del Q[k]
        elif op == 'reset':
            mocker.reset()
            Q.clear()
            REC.clear()
        elif op in ('call', 'notif'):
            params, args, kwargs = mk_params(n)
            rid = env.int(f'id{n}') if op == 'call' else None
            doc = {'jsonrpc': '2.0', 'method': m, 'params': params}
            if rid is not None:
                doc['id'] = rid
            norig = len(mock_target.ORIGINAL_CALLS)
            st, out = request(e, wire.encode(doc), op == 'notif')
            res = model_call(e, m)
            if res == 'empty-endpoint':
                if ob['pt']:
                    if st != 'ok' or out != 'ORIGINAL-TRANSPORT' or len(mock_target.ORIGINAL_CALLS) != norig + 1:
                        raise Violation('unpatched-endpoint-not-passed-through', (where, st, out))
                elif st != 'refused':
                    raise Violation('unpatched-endpoint-not-refused', (where, st, out))
                continue
            if st != 'ok' or len(mock_target.ORIGINAL_CALLS) != norig:
                raise Violation('patched-endpoint-' + st, where)
            if res == 'notfound':
                if op == 'call':
                    rdoc = wire.decode(out)
                    if not isinstance(rdoc, dict) or 'error' not in rdoc or rdoc['error'].get('code') != -32601 \
                            or not same_json(rdoc.get('id', 'missing'), rid):
                        raise Violation('unpatched-method-not-32601', (where, rdoc))
                continue
            REC.setdefault((e, m), []).append((args, kwargs))
            if op == 'call':
                expect_reply(res, wire.decode(out), rid, args, kwargs, where)
        elif op == 'batch':
            e2, m2 = _pick_pair(env, 100 + n, False)
            env.assume(e2 == e)
            p1, a1, k1 = mk_params(n, 0)
            p2, a2, k2 = mk_params(n, 1)
            id1, id2 = env.int(f'id{n}_0'), env.int(f'id{n}_1')
            env.assume(id1 != id2)
            docs = [{'jsonrpc': '2.0', 'method': m, 'params': p1, 'id': id1},
                    {'jsonrpc': '2.0', 'method': m2, 'params': p2, 'id': id2}]
            norig = len(mock_target.ORIGINAL_CALLS)
            if not has_endpoint(e):
                st, out = request(e, wire.encode(docs), False)
                if ob['pt']:
                    if st != 'ok' or out != 'ORIGINAL-TRANSPORT':
                        raise Violation('unpatched-endpoint-not-passed-through', (where, st, out))
                elif st != 'refused':
                    raise Violation('unpatched-endpoint-not-refused', (where, st, out))
                continue
            st, out = request(e, wire.encode(docs), False)
            if st != 'ok' or len(mock_target.ORIGINAL_CALLS) != norig:
                raise Violation('patched-endpoint-' + st, where)
            rdocs = wire.decode(out)
            if not isinstance(rdocs, list) or len(rdocs) != 2:
                raise Violation('batch-not-answered-element-wise', (where, rdocs))
            for (mm, rid, args, kwargs), rdoc in zip(((m, id1, a1, k1), (m2, id2, a2, k2)), rdocs):
                res = model_call(e, mm)
                if res == 'empty-endpoint':
                    continue        # endpoint emptied by an earlier element of this batch: reply not asserted
                if res == 'notfound':
                    if not isinstance(rdoc, dict) or 'error' not in rdoc or rdoc['error'].get('code') != -32601 \
                            or not same_json(rdoc.get('id', 'missing'), rid):
                        raise Violation('unpatched-method-not-32601', (where, rdoc))
                    continue
                REC.setdefault((e, mm), []).append((args, kwargs))
                expect_reply(res, rdoc, rid, args, kwargs, where)
        # recorded calls must match the reference after every step
        calls = mocker.calls
        for (ce, cm), lst in REC.items():
            stub = calls.get(ce, {}).get(('2.0', cm))
            if stub is None:
                raise Violation('call-not-recorded', (where, ce, cm))
            got = stub.call_args_list
            if len(got) != len(lst):
                raise Violation('recorded-call-count', (where, ce, cm, len(got), len(lst)))
            for g, (a, k) in zip(got, lst):
                gt = tuple(g)          # mock._Call is a (args, kwargs) or (name, args, kwargs) tuple
                if tuple(gt[-2]) != tuple(a) or dict(gt[-1]) != dict(k):
                    raise Violation('recorded-arguments', (where, ce, cm))
    env.reached()
    return [sum(len(v) for v in REC.values())]
