#!/bin/bash
# Idempotent: venv overlay on /venv + crosshair-tool (+cvc5) from the offline wheelhouse.
set -e
HERE="$(cd "$(dirname "$0")" && pwd)"
VENV="$HERE/.venv"
exec 9>"$HERE/.setup.lock"
flock 9
if [ -x "$VENV/bin/python" ] && "$VENV/bin/python" -c "import crosshair, z3, pjrpc, cvc5" 2>/dev/null; then
  exit 0
fi
rm -rf "$VENV"
/venv/bin/python -m venv "$VENV"
SP="$("$VENV/bin/python" -c 'import sysconfig; print(sysconfig.get_paths()["purelib"])')"
echo "import site; site.addsitedir('/venv/lib/python3.12/site-packages')" > "$SP/_overlay.pth"
PIP_NO_INDEX=1 "$VENV/bin/pip" install -q --no-index --find-links /opt/veriftools/wheels crosshair-tool cvc5
"$VENV/bin/python" -c "import crosshair, z3, pjrpc, cvc5; print('ok')"
