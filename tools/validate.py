"""Developer tool: validate MANIFEST.json and evidence/*.json against the schemas in /root/.vp."""
import json, sys, glob
import jsonschema
ok = True
def check(path, schema_path):
    global ok
    schema = json.load(open(schema_path))
    try:
        jsonschema.Draft202012Validator(schema).validate(json.load(open(path))) if hasattr(jsonschema, 'Draft202012Validator') else jsonschema.validate(json.load(open(path)), schema)
        print('ok  ', path)
    except Exception as e:
        ok = False
        print('FAIL', path, str(e)[:500])
check('/verif/MANIFEST.json', '/root/.vp/MANIFEST.schema.json')
for p in sorted(glob.glob('/verif/evidence/*.json')):
    check(p, '/root/.vp/EVIDENCE.schema.json')
ids = [json.loads(l)['id'] for l in open('/verif/properties.jsonl')]
m = json.load(open('/verif/MANIFEST.json'))
claimed = [c['property_id'] for c in m['checks']]
na = [c['property_id'] for c in m.get('not_applicable', [])]
for i in ids:
    if (i in claimed) == (i in na):
        ok = False; print('FAIL', i, 'must be in exactly one of checks / not_applicable')
sys.exit(0 if ok else 1)
