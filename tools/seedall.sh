#!/bin/bash
# Developer tool: apply every seeded change in /verif/seeded to /repo in turn, run its property's quick check, undo; print the matrix.
cd /verif
for d in seeded/S*/; do
  name=$(basename $d); prop=$(python3 -c "import json; print(json.load(open('$d/meta.json'))['property'])")
  cd /repo; if [ -n "$(git status --porcelain)" ]; then echo "/repo dirty"; exit 2; fi
  git apply /verif/$d/patch.diff || { echo "$name: patch does not apply"; continue; }
  cd /verif; out=$(./check $prop quick 2>&1); rc=$?
  cd /repo; git checkout -- .; git clean -fdq pjrpc; cd /verif
  echo "$name $prop rc=$rc viol=$(echo "$out" | grep -c '^VIOLATION') first=$(echo "$out" | grep -A1 '^VIOLATION' | grep 'key=' | head -1 | sed 's/ label=.*//' | sed 's/^ *//')"
done
