"""Developer tool: tools/keepseed.py <srcdir> <seed-name> <caught_by> <note>  -- copy a confirmed seeded change into /verif/seeded/."""
import json, os, shutil, sys
src, name, caught, note = sys.argv[1:5]
dst = f'/verif/seeded/{name}'
os.makedirs(dst, exist_ok=True)
for f in ('patch.diff', 'demo.py'):
    shutil.copy(os.path.join(src, f), os.path.join(dst, f))
meta = json.load(open(os.path.join(src, 'meta.json')))
meta['origin'] = 'independent sub-agent given only the property text and a scratch worktree'
meta['confirmed_by_me'] = ['git -C /repo apply patch.diff', 'python3 /verif/tools/baseline.py  (219/219 stable tests still pass)',
                           'PYTHONPATH=/repo /venv/bin/python demo.py  (exit 1 with the change, exit 0 without)', 'git -C /repo checkout -- .']
meta['caught_by'] = caught
meta['note'] = note
json.dump(meta, open(os.path.join(dst, 'meta.json'), 'w'), indent=1)
print('kept', dst)
