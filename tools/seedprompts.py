"""Developer tool: tools/seedprompts.py <suffix>  -- creates scratch worktrees /tmp/wt/CNN<suffix> and prompt files /tmp/wt_out/CNN<suffix>.prompt.txt
for a round of seed-producing sub-agents.  A prompt contains ONLY the property text (title, statement, quantifier text), the list of
summaries of the seeded changes that already exist for that property (so the new one is of a different kind) and the working rules; nothing from /verif."""
import glob, json, os, subprocess, sys

suffix = sys.argv[1]
TEMPLATE = open(os.path.join(os.path.dirname(__file__), 'seedprompt.tmpl')).read()
props = [json.loads(l) for l in open('/verif/properties.jsonl')]
os.makedirs('/tmp/wt', exist_ok=True)
os.makedirs('/tmp/wt_out', exist_ok=True)
only = set(sys.argv[2:])
for p in props:
    pid = p['id']
    if only and pid not in only:
        continue
    wid = pid + suffix
    existing = []
    for m in sorted(glob.glob(f'/verif/seeded/S*-{pid}-*/meta.json')):
        existing.append(' - ' + json.load(open(m))['summary'])
    text = f"{pid} - {p['title']}\n\nStatement: {p['statement']}\n\nQuantified over: {p['quantifier']['text']}"
    if existing:
        text += ("\n\nIMPORTANT: seeded bugs of the following kinds already exist for this property - yours must be of a clearly DIFFERENT kind "
                 "(different code site AND different triggering condition; pick a clause of the statement or a dimension of the quantifier text that NONE "
                 "of the existing ones touches, and prefer bugs that need a multi-step history, two cooperating sites, or an unusual configuration):\n" + '\n'.join(existing) + '\n')
    open(f'/tmp/wt_out/{wid}.prompt.txt', 'w').write(TEMPLATE.replace('@ID@', wid).replace('@PID@', pid).replace('@PROP@', text))
    os.makedirs(f'/tmp/wt_out/{wid}', exist_ok=True)
    if not os.path.isdir(f'/tmp/wt/{wid}'):
        subprocess.check_call(['git', '-C', '/repo', 'worktree', 'add', '--detach', '-q', f'/tmp/wt/{wid}', 'HEAD'])
print('ok')
