"""Developer tool: explore ONE obligation given as JSON.  tools/probe1.py C08 '{"h":...}' [budget]"""
import sys, time, logging, json, importlib, collections
sys.path.insert(0, '/verif'); sys.path.insert(0, '/repo')
logging.disable(logging.CRITICAL)
from vlib import explore
prop, ob = sys.argv[1], json.loads(sys.argv[2])
budget = float(sys.argv[3]) if len(sys.argv) > 3 else 20
m = importlib.import_module('props.' + prop.lower())
explore._load_crosshair()
cfg = getattr(m, 'ENGINE', {})
explore.configure(format_stub=cfg.get('format_stub', True), live_lru=cfg.get('live_lru', False))
if hasattr(m, 'setup'): m.setup()
t = time.time(); run = m.make(ob); r = explore.explore(run, budget_s=budget)
print('paths', len(r.paths), 'exh', r.exhausted, r.reason, 'unk', r.n_unknown, round(time.time() - t, 2))
print(collections.Counter((p.outcome, p.label) for p in r.paths))
for p in r.paths[:int(sys.argv[4]) if len(sys.argv) > 4 else 15]:
    print(p.outcome, p.label, p.decisions, p.model, p.observation, p.detail[:200])
