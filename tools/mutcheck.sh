#!/bin/bash
# Developer tool: tools/mutcheck.sh <patch.diff> <ID> [<ID>...]  -- apply a patch to /repo, run quick checks, revert.
set -u
P="$1"; shift
cd /repo || exit 2
if [ -n "$(git status --porcelain)" ]; then echo "/repo dirty"; exit 2; fi
git apply "$P" || { echo "patch does not apply"; exit 2; }
trap 'cd /repo && git checkout -- . ' EXIT
cd /verif
for id in "$@"; do
  out=$(./check "$id" ${TIER:-quick} 2>&1); rc=$?
  echo "== $id rc=$rc: $(echo "$out" | grep -c '^VIOLATION') violation lines; $(echo "$out" | tail -1)"
  echo "$out" | grep -A1 '^VIOLATION' | head -${SHOW:-4}
  echo "$out" | grep 'HARNESS-ERROR' | head -2
done
