#!/bin/bash
# Developer tool: run every claimed check (tier $1, default quick) on the current tree; summary per property.
cd /verif
TIER=${1:-quick}
for id in $(python3 -c "import json; print(' '.join(c['property_id'] for c in json.load(open('MANIFEST.json'))['checks']))"); do
  s=$(date +%s); out=$(./check $id $TIER 2>&1); rc=$?
  echo "$id rc=$rc $(( $(date +%s) - s ))s $(echo "$out" | grep -c '^VIOLATION') viol $(echo "$out" | grep -c '^KNOWN-FINDING') known | $(echo "$out" | tail -1)"
done
