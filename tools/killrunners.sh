#!/bin/bash
# Developer tool: kill stray check processes (safe to call from any shell: the pattern is only inside this file).
pgrep -f 'python -m vlib\.runner' | xargs -r kill -9
pgrep -f 'tools/seedcheck\.sh' | xargs -r kill -9
sleep 1
cd /repo && git checkout -- . && git clean -fdq pjrpc
git -C /repo status --short
