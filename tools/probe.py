"""Developer tool: time single obligations of a property.  tools/probe.py C06 quick <harness> <n> [budget]"""
import sys, time, logging, random, collections, importlib
sys.path.insert(0, '/verif'); sys.path.insert(0, '/repo')
logging.disable(logging.CRITICAL)
from vlib import explore
prop, tier, which, n = sys.argv[1], sys.argv[2], sys.argv[3], int(sys.argv[4])
budget = float(sys.argv[5]) if len(sys.argv) > 5 else 20
m = importlib.import_module('props.' + prop.lower())
explore._load_crosshair()
cfg = getattr(m, 'ENGINE', {})
explore.configure(format_stub=cfg.get('format_stub', True), live_lru=cfg.get('live_lru', False))
if hasattr(m, 'setup'): m.setup()
obs = m.obligations(tier)
print(collections.Counter(o['h'] for o in obs))
sel = [o for o in obs if o['h'] == which]
random.seed(1); random.shuffle(sel)
for o in sel[:n]:
    t = time.time(); run = m.make(o); r = explore.explore(run, budget_s=budget)
    bad = [(p.outcome, p.label, p.detail[:300], p.model) for p in r.paths if p.outcome not in ('ok', 'ignored')][:3]
    print(o, 'paths', len(r.paths), 'exh', r.exhausted, r.reason, 'unk', r.n_unknown, round(time.time() - t, 2))
    for b in bad: print('    ', b)
    for p in r.paths[:200]:
        if p.outcome in ('ok', 'violation'):
            c = explore.run_concrete(run, p.model, True)
            if c.outcome != p.outcome or (p.outcome == 'ok' and c.observation != p.observation):
                print('    DIVERGE', p.model, p.outcome, p.observation, '| real:', c.outcome, c.label, c.observation, c.detail[:300])
