"""Developer tool: print the markdown table of seeded changes for DESIGN.md section 13."""
import glob, json
print('| seed | property | what was changed | needs | caught by | history |')
print('|---|---|---|---|---|---|')
for d in sorted(glob.glob('/verif/seeded/S*/'), key=lambda p: int(p.rstrip('/').split('/')[-1].split('-')[0][1:])):
    m = json.load(open(d + 'meta.json'))
    name = d.rstrip('/').split('/')[-1]
    cut = lambda s, n: (s[:n] + '...') if len(s) > n else s
    print(f"| {name.split('-')[0]} | {m['property']} | {cut(m['summary'].replace('|', '/'), 230)} | {cut(m['needs'].replace('|', '/'), 200)} | {m['caught_by'].replace('|', '/')} | {cut(m['note'].replace('|', '/'), 260)} |")
