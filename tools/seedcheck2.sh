#!/bin/bash
# Developer tool: tools/seedcheck2.sh <dir with patch.diff+demo.py> <ID> [<ID>...]
# like seedcheck.sh but works on its own scratch worktree of /repo (so several can run at once and /repo stays untouched):
# confirms the seeded change (baseline suite unchanged, demo fails with / passes without) and runs the given quick checks on it.
set -u
D="$1"; shift
W=/tmp/wt/sc_$$
git -C /repo worktree add --detach -q "$W" HEAD || exit 2
trap 'git -C /repo worktree remove --force "$W"; rm -rf /tmp/ev_sc_$$' EXIT
echo "--- demo on clean tree:"; (cd "$W" && PYTHONPATH="$W" timeout 300 /venv/bin/python "$D/demo.py" >/dev/null 2>&1; echo "demo rc=$?")
git -C "$W" apply "$D/patch.diff" || { echo "patch does not apply"; exit 2; }
echo "--- demo on changed tree:"; (cd "$W" && PYTHONPATH="$W" timeout 300 /venv/bin/python "$D/demo.py" 2>&1 | tail -3; echo "demo rc=${PIPESTATUS[0]}")
echo "--- baseline suite on changed tree:"; python3 /verif/tools/baseline.py "$W" | head -5
cd /verif
for id in "$@"; do
  out=$(VERIF_REPO="$W" VERIF_EVIDENCE_DIR=/tmp/ev_sc_$$ ./check "$id" ${TIER:-quick} 2>&1); rc=$?
  echo "== $id rc=$rc: $(echo "$out" | grep -c '^VIOLATION') violation lines; $(echo "$out" | tail -1)"
  echo "$out" | grep -A1 '^VIOLATION' | head -${SHOW:-4} | cut -c1-400
  echo "$out" | grep 'HARNESS-ERROR' | head -2 | cut -c1-400
done
