#!/bin/bash
# Developer tool: like seedall.sh, but every seeded change is applied to its own scratch worktree of /repo (VERIF_REPO override),
# ${P:-4} at a time; /repo itself and /verif/evidence are not touched.  Prints one line per seed; a seed NOT caught has rc=0.
cd /verif
one() {
  d=$1; name=$(basename $d); prop=$(python3 -c "import json; print(json.load(open('$d/meta.json'))['property'])")
  W=/tmp/wt/sa_$name
  git -C /repo worktree add --detach -q "$W" HEAD 2>/dev/null || { echo "$name: worktree failed"; return; }
  if git -C "$W" apply /verif/$d/patch.diff; then
    out=$(VERIF_REPO="$W" VERIF_EVIDENCE_DIR=/tmp/ev_sa/$name ./check $prop quick 2>&1); rc=$?
    echo "$name $prop rc=$rc viol=$(echo "$out" | grep -c '^VIOLATION') first=$(echo "$out" | grep -A1 '^VIOLATION' | grep 'key=' | head -1 | sed 's/ label=.*//' | sed 's/^ *//')"
  else
    echo "$name: patch does not apply"
  fi
  git -C /repo worktree remove --force "$W"; rm -rf /tmp/ev_sa/$name
}
export -f one
ls -d seeded/S*/ | sed 's|/$||' | xargs -P ${P:-4} -I{} bash -c 'one {}'
git -C /repo worktree prune
