#!/bin/bash
# Developer tool: tools/seedcheck.sh <dir with patch.diff+demo.py> <ID> [<ID>...]
# confirms the seeded change (baseline suite unchanged, demo fails with / passes without) and runs the given quick checks on it.
set -u
D="$1"; shift
cd /repo || exit 2
if [ -n "$(git status --porcelain)" ]; then echo "/repo dirty"; exit 2; fi
echo "--- demo on clean tree:"; (cd /repo && PYTHONPATH=/repo timeout 300 /venv/bin/python "$D/demo.py" >/dev/null 2>&1; echo "demo rc=$?")
git apply "$D/patch.diff" || { echo "patch does not apply"; exit 2; }
trap 'cd /repo && git checkout -- . && git clean -fdq pjrpc' EXIT
echo "--- demo on changed tree:"; (cd /repo && PYTHONPATH=/repo timeout 300 /venv/bin/python "$D/demo.py" 2>&1 | tail -3; echo "demo rc=${PIPESTATUS[0]}")
echo "--- baseline suite on changed tree:"; python3 /verif/tools/baseline.py | head -5
cd /verif
for id in "$@"; do
  out=$(./check "$id" ${TIER:-quick} 2>&1); rc=$?
  echo "== $id rc=$rc: $(echo "$out" | grep -c '^VIOLATION') violation lines; $(echo "$out" | tail -1)"
  echo "$out" | grep -A1 '^VIOLATION' | head -${SHOW:-4} | cut -c1-400
  echo "$out" | grep 'HARNESS-ERROR' | head -2 | cut -c1-400
done
