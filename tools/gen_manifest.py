"""Developer tool: regenerate MANIFEST.json from the table below."""
import json, importlib, sys, os
sys.path.insert(0, '/verif')
IDS = [json.loads(l)['id'] for l in open('/verif/properties.jsonl')]
NOTE_COMMON = ("Trusted base: CPython 3.12, CrossHair 0.0.110 proxy semantics and stdlib models, z3 5.1.0, the harness oracle. "
               "Stubs (DESIGN section 2): value-level wire model instead of JSON text (S1), constant exception texts (S4), logging off (S5), "
               "formatting of symbolic non-string values renders a constant (S13). Every explored path is re-run on its concrete witness in the plain "
               "interpreter against the unstubbed code with real json text and must agree. ")
TECH = "symbolic execution of the real code (CrossHair core + z3), exhaustive path enumeration per concrete skeleton, concrete witness cross-validation, counterexample replay"
CHECKS = {}
for _i in IDS:
    try:
        _m = importlib.import_module('props.' + _i.lower())
    except ModuleNotFoundError:
        continue
    if hasattr(_m, 'MANIFEST'):
        c = dict(_m.MANIFEST)
        c['note'] = NOTE_COMMON + c['note']
        c.setdefault('technique', TECH)
        CHECKS[_i] = c
NA_REASON = {}
def main():
    checks, na = [], []
    for i in IDS:
        if i in CHECKS and os.path.exists(f'/verif/props/{i.lower()}.py'):
            c = CHECKS[i]
            checks.append({
              'property_id': i,
              'quick_cmd': f'./check {i} quick',
              'thorough_cmd': f'./check {i} thorough',
              'evidence_file': f'/verif/evidence/{i}.json',
              'replay_cmd_template': f'./check {i} --replay {{path}}',
              'engine': c.get('engine', 'symex'),
              'level_claimed': {'category': 'model_checking', 'text': c['text'], 'design_ref': 'DESIGN.md section ' + c['ref']},
              'level_note': c['note'],
              'technique': c['technique'],
            })
        else:
            na.append({'property_id': i, 'reason': NA_REASON.get(i, 'check not built yet in this round (build in progress; see DESIGN.md section 5 for the planned harness)')})
    m = {
      'version': 1,
      'setup_cmd': './setup.sh',
      'hooks': {'guard': 'PJRPC_VERIF', 'enable': 'no source hooks exist: every stub is injected from the harness side through public constructor parameters or attribute assignment; checks export PJRPC_VERIF=1 only for uniformity',
                'baseline_off_cmd': 'cd /repo && /venv/bin/python -m pytest -ra -q -p no:cacheprovider --timeout=900 --continue-on-collection-errors',
                'source_commits': [], 'add_only': True},
      'engines': [
        {'name': 'symex', 'path': 'vlib/explore.py', 'serves_properties': [c['property_id'] for c in checks],
         'kind_free_text': 'E1: CrossHair 0.0.110 core driven as an exhaustive path explorer over the real pjrpc code, z3 deciding every branch; per-path concrete witness cross-validation and counterexample replay'},
        {'name': 'smtkernel', 'path': 'vlib/smtkernel.py', 'serves_properties': ['C09'],
         'kind_free_text': 'E2: Python AST of the backoff generators -> z3 terms (regenerated from /repo on every run), closed-form equivalence queries, cvc5 cross-check in the thorough tier'},
      ],
      'checks': checks,
      'not_applicable': na,
      'notes': 'Single technique family: solver-based checking of the real code. Exit 0 = no violation on everything explored (inconclusive obligations are listed in the evidence and never counted as discharged); exit 1 + VIOLATION line only for replay-confirmed violations not listed in known_findings.json; exit 3 = harness error.',
    }
    json.dump(m, open('/verif/MANIFEST.json', 'w'), indent=1)
    print('claimed', [c['property_id'] for c in checks], 'n/a', [n['property_id'] for n in na])
main()
