"""Developer tool: run the pinned suite and compare with BASELINE.json stable_pass."""
import json, subprocess, sys, xml.etree.ElementTree as ET, os, tempfile
b = json.load(open('/root/.vp/BASELINE.json'))
fd, path = tempfile.mkstemp(suffix='.xml', dir='/dev/shm'); os.close(fd)
repo = sys.argv[1] if len(sys.argv) > 1 else '/repo'      # optional: a scratch worktree
env = dict(os.environ); env.pop('PJRPC_VERIF', None); env['PYTHONPATH'] = repo
subprocess.run(f'cd {repo} && /venv/bin/python -m pytest -ra -q -p no:cacheprovider --timeout=900 --continue-on-collection-errors --junitxml={path}', shell=True, env=env, stdout=subprocess.DEVNULL, stderr=subprocess.DEVNULL)
passed = set()
for tc in ET.parse(path).getroot().iter('testcase'):
    if not any(c.tag in ('failure', 'error', 'skipped') for c in tc):
        passed.add(f"{tc.get('classname')}::{tc.get('name')}")
os.unlink(path)
missing = [t for t in b['stable_pass'] if t not in passed]
print('passed', len(passed), 'stable_pass', len(b['stable_pass']), 'missing', len(missing))
for m in missing: print('  MISSING', m)
sys.exit(1 if missing else 0)
