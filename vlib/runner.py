"""
Obligations -> process pool -> verdicts -> replay -> known findings -> evidence -> exit status.

Usage:  python -m vlib.runner <ID> quick|thorough
        python -m vlib.runner <ID> --replay <file>
Exit:   0 nothing violated (inconclusive obligations are listed in the evidence, never counted as discharged)
        1 at least one replay-confirmed violation that known_findings.json does not list
        3 harness error (counterexample that does not reproduce, exception escaping a harness)
"""
from __future__ import annotations

import hashlib
import importlib
import json
import logging
import multiprocessing as mp
import os
import random
import sys
import time
import traceback
from typing import Any, Dict, List

ROOT = os.path.dirname(os.path.dirname(os.path.abspath(__file__)))
REPO = os.environ.get('VERIF_REPO', '/repo')

_MOD = None
_CENSUS: set = set()


def _load(prop_id: str):
    global _MOD
    if REPO not in sys.path:
        sys.path.insert(0, REPO)
    os.environ.setdefault('PJRPC_VERIF', '1')
    mod = importlib.import_module(f'props.{prop_id.lower()}')
    _MOD = mod
    return mod


def _worker_init(prop_id: str, seed: int):
    logging.disable(logging.CRITICAL)
    sys.setrecursionlimit(10000)
    from vlib import explore
    mod = _load(prop_id)
    explore._load_crosshair()
    cfg = getattr(mod, 'ENGINE', {})
    explore.configure(format_stub=cfg.get('format_stub', True), live_lru=cfg.get('live_lru', False))
    if hasattr(mod, 'setup'):
        mod.setup()
    random.seed(seed)


def _profile_census(fn, *a, **kw):
    """Run fn while recording which /repo functions execute."""
    seen = _CENSUS
    prefix = REPO + '/pjrpc/'

    def prof(frame, event, arg):
        if event == 'call':
            co = frame.f_code
            fnm = co.co_filename
            if fnm.startswith(prefix):
                seen.add(fnm[len(REPO) + 1:] + ':' + getattr(co, 'co_qualname', co.co_name))
    sys.setprofile(prof)
    try:
        return fn(*a, **kw)
    finally:
        sys.setprofile(None)


class Watchdog(BaseException):
    """Raised by SIGALRM when one obligation exceeds its hard wall-clock limit (never a verdict: inconclusive)."""


def _on_alarm(signum, frame):
    raise Watchdog()


def _work(args):
    import signal
    idx, ob, tier = args
    from vlib import explore
    mod = _MOD
    t0 = time.monotonic()
    budget0 = ob.get('_budget', mod.BUDGET.get(tier, 60.0) if hasattr(mod, 'BUDGET') else 60.0)
    signal.signal(signal.SIGALRM, _on_alarm)
    signal.setitimer(signal.ITIMER_REAL, budget0 * 2 + 45)
    out: Dict[str, Any] = {'idx': idx, 'ob': ob, 'verdict': 'confirmed', 'reason': '', 'paths': 0, 'decisions': 0,
                           'nontrivial': 0, 'witnesses': 0, 'unknown': 0, 'ignored': 0, 'failing': [],
                           'errors': [], 'sample': None, 'solver_queries': 0, 'solver_time': 0.0, 'census': []}
    try:
        run = mod.make(ob)
        budget = ob.get('_budget', mod.BUDGET.get(tier, 60.0) if hasattr(mod, 'BUDGET') else 60.0)
        per_path = ob.get('_per_path', 15.0)
        res = explore.explore(run, budget_s=budget, per_path_s=per_path)
        out['paths'] = len(res.paths)
        out['solver_queries'] = res.solver_queries
        out['solver_time'] = res.solver_time
        reached = 0
        seen_fail = set()
        profiled = 0
        for n, p in enumerate(res.paths):
            out['decisions'] += p.decisions
            if p.outcome == 'ignored':
                out['ignored'] += 1
                continue
            if p.outcome == 'unknown':
                out['unknown'] += 1
                if not out['reason']:
                    out['reason'] = f'unknown-leaf:{p.label}:{p.detail[:120]}'
                continue
            reached += 1 if p.reached else 0
            if p.reached and p.decisions:
                out['nontrivial'] += 1
            if p.outcome == 'error':
                out['errors'].append({'label': p.label, 'detail': p.detail, 'model': p.model})
                continue
            # witness cross-validation / replay in the plain interpreter against the unstubbed code
            profiled += 1
            if profiled <= 3:
                c = _profile_census(explore.run_concrete, run, p.model, True)
            else:
                c = explore.run_concrete(run, p.model, True)
            if p.outcome == 'ok':
                if c.outcome == 'ok':
                    if _obs_equal(c.observation, p.observation):
                        out['witnesses'] += 1
                        if out['sample'] is None and p.decisions:
                            out['sample'] = {'obligation': _public(ob), 'model': p.model,
                                             'observation': _jsonable(p.observation)}
                    else:
                        out['reason'] = out['reason'] or (
                            f'model-divergence: traced {p.observation!r} vs real {c.observation!r} on {p.model!r}')[:600]
                elif c.outcome == 'violation':
                    # the honest way: the real code fails the oracle on this witness
                    k = (c.label,)
                    if k not in seen_fail or len(out['failing']) < 40:
                        seen_fail.add(k)
                        out['failing'].append({'label': c.label, 'detail': c.detail, 'model': p.model,
                                               'found_by': 'witness', 'confirmed': True})
                else:
                    out['reason'] = out['reason'] or f'model-divergence: real run {c.outcome}: {c.label} {c.detail[:300]}'
            elif p.outcome == 'violation':
                conf = (c.outcome == 'violation')
                if len(out['failing']) < 200:
                    out['failing'].append({'label': c.label if conf else p.label,
                                           'detail': c.detail if conf else p.detail, 'model': p.model,
                                           'found_by': 'solver', 'confirmed': conf,
                                           'real_outcome': c.outcome, 'real_detail': (c.label + ' ' + c.detail)[:400],
                                           'sym_label': p.label})
        if not res.conclusive and not out['reason']:
            out['reason'] = res.reason or ('unknown leaves' if res.n_unknown else 'not exhausted')
        if out['errors']:
            out['verdict'] = 'error'
        elif any(f['confirmed'] for f in out['failing']):
            out['verdict'] = 'violated'
        elif any(not f['confirmed'] for f in out['failing']):
            out['verdict'] = 'nonreproducing'
        elif out['reason']:
            out['verdict'] = 'inconclusive'
        elif reached == 0:
            out['verdict'] = 'vacuous'
        if out['sample'] is None and res.paths:
            p = next((p for p in res.paths if p.outcome in ('ok', 'violation')), None)
            if p is not None:
                out['sample'] = {'obligation': _public(ob), 'model': p.model, 'observation': _jsonable(p.observation)}
    except Watchdog:
        # a path that neither finishes nor reaches one of CrossHair's timeout checks: inconclusive, not a verdict
        out['verdict'] = 'inconclusive'
        out['reason'] = f'watchdog: obligation exceeded the hard limit of {budget0 * 2 + 45:.0f}s'
        out['failing'] = [f for f in out['failing'] if f.get('confirmed')]
        if out['failing']:
            out['verdict'] = 'violated'
    except BaseException as e:  # noqa
        out['verdict'] = 'error'
        out['errors'].append({'label': type(e).__name__, 'detail': traceback.format_exc()[-3000:], 'model': {}})
    finally:
        signal.setitimer(signal.ITIMER_REAL, 0)
    out['wall'] = time.monotonic() - t0
    out['census'] = sorted(_CENSUS)
    _CENSUS.clear()
    return out


def _obs_equal(a, b) -> bool:
    try:
        return _jsonable(a) == _jsonable(b)
    except Exception:
        return False


def _jsonable(v):
    if isinstance(v, float):
        return repr(v) if v != v or v in (float('inf'), float('-inf')) else v
    if v is None or isinstance(v, (bool, int, str)):
        return v
    if isinstance(v, (list, tuple)):
        return [_jsonable(x) for x in v]
    if isinstance(v, dict):
        return {str(k): _jsonable(x) for k, x in v.items()}
    return repr(v)


def _public(ob):
    return {k: v for k, v in ob.items() if not k.startswith('_')}


def _worker_loop(conn, prop_id, seed):
    _worker_init(prop_id, seed)
    while True:
        try:
            task = conn.recv()
        except (EOFError, OSError):
            return
        if task is None:
            return
        try:
            conn.send(_work(task))
        except (BrokenPipeError, OSError):
            return


def _run_pool(prop_id, seed, jobs, nproc, mod, tier):
    """
    Own worker management instead of multiprocessing.Pool: a worker that is stuck inside a native z3 call cannot be
    interrupted from Python (no bytecode boundary, z3 ignoring its timeout), so the parent enforces a hard per-obligation
    wall-clock limit, kills the worker, records the obligation as inconclusive and starts a replacement.
    """
    from multiprocessing.connection import wait
    ctx = mp.get_context('fork')
    pending = list(reversed(jobs))
    results = []
    workers = {}          # conn -> [process, task or None, start time]

    def spawn():
        parent, child = ctx.Pipe()
        p = ctx.Process(target=_worker_loop, args=(child, prop_id, seed), daemon=True)
        p.start()
        child.close()
        workers[parent] = [p, None, 0.0]
        return parent

    def limit(task):
        ob = task[1]
        b = ob.get('_budget', mod.BUDGET.get(tier, 60.0) if hasattr(mod, 'BUDGET') else 60.0)
        return b * 2 + 90

    def feed(conn):
        if pending:
            task = pending.pop()
            workers[conn][1], workers[conn][2] = task, time.monotonic()
            conn.send(task)
        else:
            workers[conn][1] = None

    # run-level bounds: a changed tree can make thousands of obligations slow (each within its own budget); the run then
    # stops feeding new obligations - what is left is reported as inconclusive, what was found is still reported
    known_keys = {f['key'] for f in load_known().get('findings', []) if f.get('property') == prop_id and f.get('status', 'open') == 'open'}
    max_wall = float(os.environ.get('VERIF_MAX_WALL', '900' if tier == 'quick' else '7200'))
    t_run = time.monotonic()
    t_first_violation = None
    for _ in range(nproc):
        feed(spawn())
    while any(w[1] is not None for w in workers.values()):
        now0 = time.monotonic()
        if t_first_violation is None and any(_has_new_violation(r, mod, known_keys) for r in results[-64:]):
            t_first_violation = now0
        if pending and (now0 - t_run > max_wall or (t_first_violation is not None and now0 - t_first_violation > 120)):
            why = 'run wall-clock bound reached' if now0 - t_run > max_wall else 'stopped 120 s after the first confirmed violation'
            while pending:
                results.append(_killed_result(pending.pop(), 'not explored: ' + why))
        busy = [c for c, w in workers.items() if w[1] is not None]
        for conn in wait(busy, timeout=2.0):
            try:
                results.append(conn.recv())
            except (EOFError, OSError):
                task = workers[conn][1]
                results.append(_killed_result(task, 'worker died'))
                workers.pop(conn)[0].kill()
                conn = spawn()
            feed(conn)
        now = time.monotonic()
        for conn, w in list(workers.items()):
            if w[1] is not None and now - w[2] > limit(w[1]):
                results.append(_killed_result(w[1], f'hard limit {limit(w[1]):.0f}s exceeded (worker stuck in native code, killed)'))
                w[0].kill()
                workers.pop(conn)
                conn.close()
                feed(spawn())
    for conn, w in workers.items():
        try:
            conn.send(None)
        except (BrokenPipeError, OSError):
            pass
    for w in workers.values():
        w[0].join(timeout=2)
        if w[0].is_alive():
            w[0].kill()
    return results


def _has_new_violation(r, mod, known_keys):
    if r['verdict'] != 'violated':
        return False
    for f in r['failing']:
        if f.get('confirmed'):
            key = mod.finding_key(r['ob'], f['label'], f['model']) if hasattr(mod, 'finding_key') else f"{r['ob'].get('h', '')}/{f['label']}"
            if key not in known_keys:
                return True
    return False


def _killed_result(task, why):
    idx, ob, tier = task
    return {'idx': idx, 'ob': ob, 'verdict': 'inconclusive', 'reason': why, 'paths': 0, 'decisions': 0, 'nontrivial': 0,
            'witnesses': 0, 'unknown': 0, 'ignored': 0, 'failing': [], 'errors': [], 'sample': None, 'solver_queries': 0,
            'solver_time': 0.0, 'census': [], 'wall': 0.0}


def load_known():
    path = os.path.join(ROOT, 'known_findings.json')
    if not os.path.exists(path):
        return {'findings': [], 'fixed': []}
    with open(path) as f:
        return json.load(f)


def write_replay(prop_id: str, ob, fail) -> str:
    d = os.path.join(ROOT, 'replays', prop_id)
    os.makedirs(d, exist_ok=True)
    body = {'property': prop_id, 'obligation': ob, 'model': fail['model'], 'label': fail['label'],
            'detail': fail['detail']}
    h = hashlib.sha1(json.dumps(body, sort_keys=True, default=repr).encode()).hexdigest()[:12]
    path = os.path.join(d, f'{h}.json')
    with open(path, 'w') as f:
        json.dump(body, f, indent=1, default=repr)
    return path


def replay_file(prop_id: str, path: str) -> int:
    from vlib import explore
    logging.disable(logging.CRITICAL)
    mod = _load(prop_id)
    if hasattr(mod, 'setup'):
        mod.setup()
    with open(path) as f:
        body = json.load(f)
    run = mod.make(body['obligation'])
    c = explore.run_concrete(run, body['model'], True)
    print(f'replay outcome={c.outcome} label={c.label} detail={c.detail[:500]}')
    if c.outcome == 'violation':
        print(f'VIOLATION property={prop_id} replay={path}')
        return 1
    return 0 if c.outcome == 'ok' else 3


def main(argv: List[str]) -> int:
    prop_id = argv[1].upper()
    if len(argv) > 3 and argv[2] == '--replay':
        return replay_file(prop_id, argv[3])
    tier = argv[2] if len(argv) > 2 else os.environ.get('VERIF_TIER', 'quick')
    seed = int(os.environ.get('VERIF_SEED', '0') or 0)
    t0 = time.monotonic()
    logging.disable(logging.CRITICAL)
    mod = _load(prop_id)
    obs = mod.obligations(tier)
    only = os.environ.get('VERIF_ONLY')
    if only:
        obs = [o for o in obs if o.get('h') in only.split(',')]
    order = list(range(len(obs)))
    random.Random(seed).shuffle(order)
    # heavy obligations first for better packing
    order.sort(key=lambda i: -obs[i].get('_weight', 1))
    jobs = [(i, obs[i], tier) for i in order]
    ncpu = len(os.sched_getaffinity(0))
    nproc = max(1, min(ncpu, len(jobs)))
    extra = []
    if hasattr(mod, 'extra_checks'):
        # engine E2 and the like: run in the parent, results merged below
        extra = mod.extra_checks(tier)
    results = _run_pool(prop_id, seed, jobs, nproc, mod, tier)
    results.extend(extra)
    return finish(prop_id, tier, seed, mod, results, time.monotonic() - t0)


def finish(prop_id, tier, seed, mod, results, wall) -> int:
    known = load_known()
    known_keys = {f['key']: f for f in known.get('findings', []) if f.get('property') == prop_id}
    verdicts: Dict[str, int] = {}
    census = set()
    tot = dict(paths=0, decisions=0, nontrivial=0, witnesses=0, unknown=0, ignored=0, sq=0, st=0.0)
    inconclusive, samples, violations, known_hits, harness_errors = [], [], [], {}, []
    for r in results:
        verdicts[r['verdict']] = verdicts.get(r['verdict'], 0) + 1
        census.update(r.get('census', []))
        tot['paths'] += r['paths']
        tot['decisions'] += r['decisions']
        tot['nontrivial'] += r['nontrivial']
        tot['witnesses'] += r['witnesses']
        tot['unknown'] += r['unknown']
        tot['ignored'] += r['ignored']
        tot['sq'] += r['solver_queries']
        tot['st'] += r['solver_time']
        if r['verdict'] in ('inconclusive', 'vacuous') and len(inconclusive) < 40:
            inconclusive.append({'obligation': _public(r['ob']), 'verdict': r['verdict'], 'reason': r['reason'][:400]})
        if r['sample'] is not None and len(samples) < 6 and (len(samples) < 3 or r['idx'] % 97 == 0):
            samples.append(r['sample'])
        for e in r['errors']:
            harness_errors.append({'obligation': _public(r['ob']), **e})
        for f in r['failing']:
            if not f['confirmed']:
                harness_errors.append({'obligation': _public(r['ob']), 'label': 'non-reproducing:' + f['label'],
                                       'detail': f.get('real_detail', ''), 'model': f['model']})
                continue
            key = mod.finding_key(r['ob'], f['label'], f['model']) if hasattr(mod, 'finding_key') \
                else f"{r['ob'].get('h', '')}/{f['label']}"
            if key in known_keys and known_keys[key].get('status', 'open') == 'open':
                known_hits.setdefault(key, 0)
                known_hits[key] += 1
            else:
                violations.append((key, r['ob'], f))
    # report
    printed = set()
    n_viol_lines = 0
    for key, ob, f in violations:
        if key in printed:
            continue
        printed.add(key)
        path = write_replay(prop_id, _public(ob), f)
        print(f"VIOLATION property={prop_id} replay={path}")
        print(f"  key={key} label={f['label']} model={json.dumps(f['model'], default=repr)[:300]} detail={f['detail'][:300]}")
        n_viol_lines += 1
    for key, n in sorted(known_hits.items()):
        print(f"KNOWN-FINDING: property={prop_id} {known_keys[key]['what']} [key={key}; {n} failing paths]")
    for e in harness_errors[:10]:
        print(f"HARNESS-ERROR property={prop_id} ob={json.dumps(e['obligation'], default=repr)[:200]} {e['label']}: "
              f"{str(e['detail'])[-600:]} model={json.dumps(e.get('model', {}), default=repr)[:200]}", file=sys.stderr)
    n_ob = len(results)
    discharged = verdicts.get('confirmed', 0)
    ev = {
        'property_id': prop_id,
        'tier': tier,
        'seed': seed,
        'level': 'model_checking',
        'coverage': {
            'states': tot['paths'],
            'transitions': tot['decisions'],
            'traces_validated_against_impl': tot['witnesses'],
            'samples': samples or [{'note': 'no sample'}],
            'obligations': n_ob,
            'discharged': discharged,
            'verdicts': verdicts,
            'inconclusive': inconclusive,
            'evaluations': tot['paths'],
            'distinct_nontrivial': tot['nontrivial'],
            'rule': 'one evaluation = one symbolic path of one obligation (concrete skeleton + symbolic leaves), '
                    'explored by CrossHair/z3 until the path tree is exhausted; paths of one obligation differ in at '
                    'least one solver decision and obligations are distinct skeletons, so paths are distinct by '
                    'construction; non-trivial = at least one solver decision taken AND the oracle reached',
            'paths_ignored_by_assumption': tot['ignored'],
            'paths_unknown': tot['unknown'],
            'solver_queries': tot['sq'],
            'solver_time_s': round(tot['st'], 3),
            'functions_encoded': sorted(census),
            'bounds': getattr(mod, 'BOUNDS', {}).get(tier, getattr(mod, 'BOUNDS', {})),
            'stubs': getattr(mod, 'STUBS', []),
            'outside_claim': getattr(mod, 'OUTSIDE', []),
            'known_findings': [{'key': k, 'failing_paths': n} for k, n in sorted(known_hits.items())],
            'new_violation_keys': sorted(printed),
            'harness_errors': len(harness_errors),
            'exhaustive': discharged == n_ob and n_ob > 0,
            'engine': 'CrossHair 0.0.110 core (symbolic execution of the real pjrpc code) + z3; '
                      'encoding regenerated from /repo on every run (the code is executed, not transcribed)',
        },
        'assumptions': getattr(mod, 'ASSUMPTIONS', []),
        'wall_s': round(wall, 2),
        'violations': n_viol_lines,
    }
    if hasattr(mod, 'evidence_extra'):
        ev['coverage'].update(mod.evidence_extra(results))
    evdir = os.environ.get('VERIF_EVIDENCE_DIR') or os.path.join(ROOT, 'evidence')    # override: developer runs on scratch copies
    os.makedirs(evdir, exist_ok=True)
    with open(os.path.join(evdir, f'{prop_id}.json'), 'w') as f:
        json.dump(ev, f, indent=1, default=repr)
    print(f"{prop_id} {tier}: obligations={n_ob} {verdicts} paths={tot['paths']} decisions={tot['decisions']} "
          f"witnesses={tot['witnesses']} solver_queries={tot['sq']} solver_time={tot['st']:.1f}s wall={wall:.1f}s")
    if n_viol_lines:
        return 1
    if harness_errors:
        return 3
    return 0


if __name__ == '__main__':
    sys.exit(main(sys.argv))
