"""
Client-side rig (S7): real AbstractClient / AbstractAsyncClient subclasses whose `_request` is a script.
"""
from __future__ import annotations

from typing import Any, Callable, List, Optional

from vlib.server import run_coro
from vlib.wire import Wire


class ClientRig:
    """
    script(attempt_index, request_document, is_notification) -> response document | None | raises.
    Return values are encoded with the wire; `RAW(text)` is passed through unencoded.
    """

    def __init__(self, env, kind: str, script: Callable[[int, Any, bool], Any], *, wire: Optional[Wire] = None, **kw):
        import pjrpc.client
        self.env = env
        self.kind = kind
        self.wire = wire or Wire(env)
        self.sent: List[Any] = []
        self.flags: List[bool] = []
        rig = self

        def handle(request_text, is_notification):
            n = len(rig.sent)
            doc = rig.wire.decode(request_text)
            rig.sent.append(doc)
            rig.flags.append(is_notification)
            out = script(n, doc, is_notification)
            if out is None:
                return None
            if isinstance(out, Raw):
                return out.text
            return rig.wire.encode(out)

        if kind == 'sync':
            class C(pjrpc.client.AbstractClient):
                def _request(self, request_text, is_notification=False, **kwargs):
                    return handle(request_text, is_notification)
        else:
            class C(pjrpc.client.AbstractAsyncClient):
                async def _request(self, request_text, is_notification=False, **kwargs):
                    return handle(request_text, is_notification)

        ckw = dict(kw)
        if not self.wire.real:
            ckw['json_loader'] = self.wire.loader
            ckw['json_dumper'] = self.wire.dumper
        self.c = C(**ckw)

    def do(self, fn: Callable[[Any], Any]) -> Any:
        """Run `fn(client)`; awaits the result for async clients."""
        if self.kind == 'sync':
            return fn(self.c)

        async def go():
            r = fn(self.c)
            if hasattr(r, '__await__'):
                r = await r
            return r
        return run_coro(go())


class Raw:
    def __init__(self, text):
        self.text = text
