"""
Engine E2: Python AST of the Backoff generator bodies in /repo/pjrpc/client/retry.py  ->  z3 real-arithmetic terms.

The translation is regenerated from the current source on every run.  Numbers stay concrete Python numbers until they
meet a symbolic term.  Any AST node outside the supported subset makes the obligation `inconclusive` (never silently
dropped).  Python float is encoded as Real (stated limitation).
"""
from __future__ import annotations

import ast
import fractions
import os
import subprocess
import tempfile
import time
from typing import Any, Dict, List, Optional

REPO = os.environ.get('VERIF_REPO', '/repo')
SRC = os.path.join(REPO, 'pjrpc', 'client', 'retry.py')


class Unsupported(Exception):
    pass


class _Yielded(Exception):
    pass


class Interp:
    """Tiny symbolic interpreter for the generator bodies (straight-line code + for loops over concrete ranges)."""

    def __init__(self, z3, fields: Dict[str, Any], jitters: List[Any]):
        self.z3 = z3
        self.fields = fields
        self.jitters = jitters
        self.jitter_calls = 0
        self.env: Dict[str, Any] = {}
        self.yields: List[Any] = []
        self.steps = 0

    # -- expressions -----------------------------------------------------------------------------
    def ev(self, node: ast.AST) -> Any:
        z3 = self.z3
        if isinstance(node, ast.Constant):
            return node.value
        if isinstance(node, ast.Name):
            if node.id in self.env:
                return self.env[node.id]
            raise Unsupported(f'free name {node.id}')
        if isinstance(node, ast.Attribute):
            if isinstance(node.value, ast.Name) and node.value.id == 'self':
                if node.attr not in self.fields:
                    raise Unsupported(f'self.{node.attr}')
                return self.fields[node.attr]
            raise Unsupported(ast.dump(node)[:80])
        if isinstance(node, ast.BinOp):
            a, b = self.ev(node.left), self.ev(node.right)
            if isinstance(node.op, ast.Add):
                return a + b
            if isinstance(node.op, ast.Sub):
                return a - b
            if isinstance(node.op, ast.Mult):
                return a * b
            if isinstance(node.op, ast.Div):
                return a / b
            if isinstance(node.op, ast.Pow):
                if z3.is_expr(b):
                    raise Unsupported('symbolic exponent')
                if not isinstance(b, int) or b < 0:
                    raise Unsupported(f'exponent {b!r}')
                if not z3.is_expr(a):
                    return a ** b
                r = z3.RealVal(1)
                for _ in range(b):
                    r = r * a
                return r
            raise Unsupported(type(node.op).__name__)
        if isinstance(node, ast.UnaryOp) and isinstance(node.op, ast.USub):
            return -self.ev(node.operand)
        if isinstance(node, ast.Compare) and len(node.ops) == 1:
            a, b = self.ev(node.left), self.ev(node.comparators[0])
            op = node.ops[0]
            if isinstance(op, ast.IsNot):
                if z3.is_expr(a) or z3.is_expr(b):
                    return True if (a is None) != (b is None) else Unsupported
                return a is not b
            if isinstance(op, ast.Is):
                if z3.is_expr(a) or z3.is_expr(b):
                    return False if (a is None) != (b is None) else Unsupported
                return a is b
            table = {ast.Lt: lambda: a < b, ast.LtE: lambda: a <= b, ast.Gt: lambda: a > b, ast.GtE: lambda: a >= b,
                     ast.Eq: lambda: a == b, ast.NotEq: lambda: a != b}
            if type(op) in table:
                return table[type(op)]()
            raise Unsupported(type(op).__name__)
        if isinstance(node, ast.IfExp):
            c = self.ev(node.test)
            if c is Unsupported:
                raise Unsupported('is-comparison of two symbolic terms')
            if z3.is_expr(c):
                return z3.If(c, self._real(self.ev(node.body)), self._real(self.ev(node.orelse)))
            return self.ev(node.body) if c else self.ev(node.orelse)
        if isinstance(node, ast.Call):
            return self.call(node)
        if isinstance(node, ast.Tuple):
            return tuple(self.ev(e) for e in node.elts)
        raise Unsupported(type(node).__name__)

    def _real(self, v):
        z3 = self.z3
        if z3.is_expr(v):
            return v
        if isinstance(v, bool) or v is None:
            raise Unsupported(f'non-numeric {v!r} in arithmetic position')
        return z3.RealVal(str(fractions.Fraction(v)))

    def call(self, node: ast.Call) -> Any:
        z3 = self.z3
        f = node.func
        if node.keywords:
            raise Unsupported('keyword arguments')
        args = [self.ev(a) for a in node.args]
        if isinstance(f, ast.Name) and f.id in ('min', 'max') and len(args) == 2:
            a, b = args
            if not z3.is_expr(a) and not z3.is_expr(b):
                return min(a, b) if f.id == 'min' else max(a, b)
            a, b = self._real(a), self._real(b)
            # Python: min(a, b) -> b if b < a else a ; max(a, b) -> b if b > a else a
            return z3.If(b < a, b, a) if f.id == 'min' else z3.If(b > a, b, a)
        if isinstance(f, ast.Name) and f.id == 'range' and len(args) == 1:
            if z3.is_expr(args[0]):
                raise Unsupported('symbolic range bound')
            return list(range(args[0]))
        if isinstance(f, ast.Name) and f.id == 'enumerate' and len(args) == 1:
            return list(enumerate(args[0]))
        if isinstance(f, ast.Attribute) and isinstance(f.value, ast.Name) and f.value.id == 'it' and f.attr == 'repeat' \
                and len(args) == 2:
            if z3.is_expr(args[1]):
                raise Unsupported('symbolic repeat count')
            return [args[0]] * args[1]
        if isinstance(f, ast.Attribute) and isinstance(f.value, ast.Name) and f.value.id == 'self' and f.attr == 'jitter' \
                and not args:
            k = self.jitter_calls
            self.jitter_calls += 1
            if k >= len(self.jitters):
                raise Unsupported('more jitter calls than delays')
            return self.jitters[k]
        raise Unsupported('call ' + ast.dump(f)[:80])

    # -- statements ------------------------------------------------------------------------------
    def assign(self, target: ast.AST, value: Any) -> None:
        if isinstance(target, ast.Name):
            self.env[target.id] = value
        elif isinstance(target, ast.Tuple):
            vals = list(value)
            if len(vals) != len(target.elts):
                raise Unsupported('tuple arity')
            for t, v in zip(target.elts, vals):
                self.assign(t, v)
        else:
            raise Unsupported('assignment target ' + type(target).__name__)

    def run(self, body: List[ast.stmt]) -> None:
        for st in body:
            self.steps += 1
            if self.steps > 10000:
                raise Unsupported('step limit')
            if isinstance(st, ast.Assign) and len(st.targets) == 1:
                self.assign(st.targets[0], self.ev(st.value))
            elif isinstance(st, ast.AnnAssign) and st.value is not None:
                self.assign(st.target, self.ev(st.value))
            elif isinstance(st, ast.AugAssign) and isinstance(st.target, ast.Name):
                cur = self.env[st.target.id]
                v = self.ev(st.value)
                if isinstance(st.op, ast.Add):
                    self.env[st.target.id] = cur + v
                elif isinstance(st.op, ast.Mult):
                    self.env[st.target.id] = cur * v
                else:
                    raise Unsupported('augassign ' + type(st.op).__name__)
            elif isinstance(st, ast.Expr) and isinstance(st.value, ast.Yield):
                self.yields.append(self.ev(st.value.value))
            elif isinstance(st, ast.Expr) and isinstance(st.value, ast.Constant):
                pass
            elif isinstance(st, ast.For) and not st.orelse:
                seq = self.ev(st.iter)
                if not isinstance(seq, list):
                    raise Unsupported('for over non-list')
                for item in seq:
                    self.assign(st.target, item)
                    self.run(st.body)
            elif isinstance(st, ast.If):
                c = self.ev(st.test)
                if c is Unsupported or self.z3.is_expr(c):
                    raise Unsupported('symbolic if statement')
                self.run(st.body if c else st.orelse)
            elif isinstance(st, ast.Pass):
                pass
            else:
                raise Unsupported('statement ' + type(st).__name__)


def _gen_body(tree: ast.Module, cls_name: str) -> List[ast.stmt]:
    for node in tree.body:
        if isinstance(node, ast.ClassDef) and node.name == cls_name:
            for fn in node.body:
                if isinstance(fn, ast.FunctionDef) and fn.name == '__call__':
                    inner = [s for s in fn.body if isinstance(s, ast.FunctionDef)]
                    rets = [s for s in fn.body if isinstance(s, ast.Return)]
                    if len(inner) == 1 and len(rets) == 1 and isinstance(rets[0].value, ast.Call) \
                            and isinstance(rets[0].value.func, ast.Name) and rets[0].value.func.id == inner[0].name:
                        return inner[0].body
                    # generator written directly in __call__
                    if not inner and any(isinstance(n, ast.Yield) for n in ast.walk(fn)):
                        return fn.body
                    raise Unsupported(f'{cls_name}.__call__ has an unexpected shape')
    raise Unsupported(f'class {cls_name} not found')


def fib(k: int) -> int:
    a, b = 1, 2
    for _ in range(k):
        a, b = b, a + b
    return a            # 1, 2, 3, 5, 8, ...


FAMILIES = {
    'PeriodicBackoff': dict(fields=['interval'], cap=None),
    'ExponentialBackoff': dict(fields=['base', 'factor'], cap='max_value'),
    'FibonacciBackoff': dict(fields=['multiplier'], cap='max_value'),
}


def closed_form(z3, family: str, k: int, f: Dict[str, Any], jit: Any, cap: Any) -> Any:
    if family == 'PeriodicBackoff':
        v = f['interval'] + jit
    elif family == 'ExponentialBackoff':
        p = z3.RealVal(1)
        for _ in range(k):
            p = p * f['factor']
        v = f['base'] * p + jit
    else:
        v = f['multiplier'] * fib(k) + jit
    if cap is not None:
        v = z3.If(v <= cap, v, cap)       # min(max, v)
    return v


def _concrete_closed(family, k, params, jit, cap):
    if family == 'PeriodicBackoff':
        v = params['interval'] + jit
    elif family == 'ExponentialBackoff':
        v = params['base'] * params['factor'] ** k + jit
    else:
        v = params['multiplier'] * fib(k) + jit
    return min(cap, v) if cap is not None else v


def _cvc5_check(smt2: str, timeout_s: int = 30) -> str:
    """Run the same SMT-LIB2 text through cvc5 (python wheel's parser if present, else the binary)."""
    try:
        import cvc5
        tm = cvc5.TermManager() if hasattr(cvc5, 'TermManager') else None
        slv = cvc5.Solver(tm) if tm is not None else cvc5.Solver()
        slv.setOption('tlimit-per', str(timeout_s * 1000))
        parser = cvc5.InputParser(slv)
        parser.setStringInput(cvc5.InputLanguage.SMT_LIB_2_6, '(set-logic ALL)\n' + smt2 + '\n(check-sat)\n', 'q')
        sm = parser.getSymbolManager()
        out = 'unknown'
        while True:
            cmd = parser.nextCommand()
            if cmd.isNull():
                break
            r = cmd.invoke(slv, sm)
            s = str(r).strip()
            if s in ('sat', 'unsat', 'unknown'):
                out = s
        return out
    except Exception as e:  # fall back to the binary
        try:
            with tempfile.NamedTemporaryFile('w', suffix='.smt2', delete=False, dir='/dev/shm') as fh:
                fh.write(smt2 + '\n(check-sat)\n')
                path = fh.name
            p = subprocess.run(['cvc5', f'--tlimit={timeout_s * 1000}', path], capture_output=True, text=True, timeout=timeout_s + 10)
            os.unlink(path)
            if '(error' in p.stdout or '(error' in p.stderr:
                return 'error:' + (p.stdout + p.stderr)[:200]
            return p.stdout.strip().splitlines()[-1] if p.stdout.strip() else 'unknown'
        except Exception as e2:
            return f'error:{type(e).__name__}/{type(e2).__name__}'


def check_backoffs(tier: str) -> List[dict]:
    """One obligation per (family, attempts N, capped?) -> result dicts in the runner's format."""
    import z3
    results = []
    nmax = 6 if tier == 'quick' else 8
    with open(SRC) as fh:
        src = fh.read()
    tree = ast.parse(src)
    idx = 100000
    for family, meta in FAMILIES.items():
        for capped in ((False, True) if meta['cap'] else (False,)):
            for n in range(0, nmax + 1):
                idx += 1
                ob = {'h': 'formula', 'family': family, 'attempts': n, 'capped': capped}
                out = {'idx': idx, 'ob': ob, 'verdict': 'confirmed', 'reason': '', 'paths': 0, 'decisions': 0, 'nontrivial': 0,
                       'witnesses': 0, 'unknown': 0, 'ignored': 0, 'failing': [], 'errors': [], 'sample': None,
                       'solver_queries': 0, 'solver_time': 0.0, 'census': [f'pjrpc/client/retry.py:{family}.__call__.<locals>.gen'],
                       'wall': 0.0}
                t0 = time.monotonic()
                try:
                    _check_family(z3, tree, family, meta, n, capped, tier, out)
                except Unsupported as e:
                    out['verdict'] = 'inconclusive'
                    out['reason'] = f'unsupported AST: {e}'
                except Exception as e:  # translator bug: never a verdict
                    out['verdict'] = 'error'
                    out['errors'].append({'label': type(e).__name__, 'detail': repr(e)[:500], 'model': {}})
                out['wall'] = time.monotonic() - t0
                results.append(out)
    return results


def _check_family(z3, tree, family, meta, n, capped, tier, out):
    fields = {name: z3.Real(name) for name in meta['fields']}
    cap = None
    if meta['cap']:
        cap = z3.Real(meta['cap']) if capped else None
        fields[meta['cap']] = cap
    fields['attempts'] = n
    jitters = [z3.Real(f'jitter{k}') for k in range(n)]
    interp = Interp(z3, fields, jitters)
    interp.run(_gen_body(tree, family))
    ys = interp.yields
    out['paths'] = 1
    out['sample'] = {'obligation': out['ob'], 'translated_delays': [str(z3.simplify(interp._real(y)))[:200] for y in ys[:3]]}
    # (0) translator validation on concrete points: real generator vs translated terms
    _validate_translation(z3, family, meta, n, capped, fields, jitters, ys, out)
    # (1) length
    if len(ys) != n:
        _sat_case(z3, family, meta, n, capped, None, 'length', out, detail=f'{len(ys)} delays for attempts={n}')
        return
    # (2) k-th delay == closed form, for all real parameters
    for k in range(n):
        want = closed_form(z3, family, k, fields, jitters[k], cap)
        s = z3.Solver()
        s.set('timeout', 30000)
        s.add(interp._real(ys[k]) != want)
        t0 = time.monotonic()
        r = str(s.check())
        out['solver_queries'] += 1
        out['solver_time'] += time.monotonic() - t0
        out['decisions'] += 1
        if r == 'unsat':
            out['nontrivial'] += 1
            if tier == 'thorough':
                r2 = _cvc5_check(s.to_smt2().replace('(check-sat)', ''))
                out['solver_queries'] += 1
                if r2 != 'unsat':
                    out['verdict'] = 'inconclusive'
                    out['reason'] = f'cvc5 answered {r2} where z3 answered unsat (k={k})'
        elif r == 'sat':
            _sat_case(z3, family, meta, n, capped, s.model(), f'delay{k}', out, k=k)
            return
        else:
            out['verdict'] = 'inconclusive'
            out['reason'] = f'z3 unknown on delay {k}'
            out['unknown'] += 1


def _to_float(z3, model, var):
    v = model.eval(var, model_completion=True)
    try:
        return float(v.as_fraction())
    except Exception:
        return float(v.approx(20).as_fraction())


def _real_delays(family, params, n, cap, jit_values):
    import importlib
    retry = importlib.import_module('pjrpc.client.retry')
    it_j = iter(jit_values)
    kw = dict(params)
    if FAMILIES[family]['cap']:
        kw[FAMILIES[family]['cap']] = cap
    b = getattr(retry, family)(attempts=n, jitter=lambda: next(it_j), **kw)
    return list(b())


def _validate_translation(z3, family, meta, n, capped, fields, jitters, ys, out):
    grid = [
        {'interval': 1.0, 'base': 1.0, 'factor': 2.0, 'multiplier': 2.0, 'cap': 10.0, 'jit': -0.2},
        {'interval': 0.5, 'base': 3.0, 'factor': 0.5, 'multiplier': 0.25, 'cap': 1.0, 'jit': 0.0},
        {'interval': 7.0, 'base': 0.1, 'factor': 3.0, 'multiplier': 5.0, 'cap': 0.05, 'jit': 0.125},
    ]
    for g in grid:
        params = {name: g[name] for name in meta['fields']}
        cap = g['cap'] if capped else None
        real = _real_delays(family, params, n, cap, [g['jit']] * n)
        subs = [(fields[name], z3.RealVal(str(fractions.Fraction(g[name])))) for name in meta['fields']]
        if capped:
            subs.append((fields[meta['cap']], z3.RealVal(str(fractions.Fraction(g['cap'])))))
        subs += [(j, z3.RealVal(str(fractions.Fraction(g['jit'])))) for j in jitters]
        if len(real) != len(ys):
            raise RuntimeError(f'translator validation: real generator yields {len(real)}, translation {len(ys)}')
        for k, (rv, y) in enumerate(zip(real, ys)):
            yt = y if z3.is_expr(y) else z3.RealVal(str(fractions.Fraction(y)))
            tv = z3.simplify(z3.substitute(yt, *subs))
            tvf = float(tv.as_fraction())
            if abs(tvf - rv) > 1e-9 * max(1.0, abs(rv)):
                raise RuntimeError(f'translator validation failed: {family} n={n} k={k}: real {rv} vs translated {tvf}')
            out['witnesses'] += 1


def _sat_case(z3, family, meta, n, capped, model, label, out, k=None, detail=''):
    """Replay a satisfying assignment on the real generators (floats) before calling it a violation."""
    if model is None:
        params = {name: 1.0 for name in meta['fields']}
        cap = 10.0 if capped else None
        jit = [0.0] * max(n, 1)
    else:
        params = {name: _to_float(z3, model, z3.Real(name)) for name in meta['fields']}
        cap = _to_float(z3, model, z3.Real(meta['cap'])) if capped else None
        jit = [_to_float(z3, model, z3.Real(f'jitter{i}')) for i in range(n)]
    real = _real_delays(family, params, n, cap, jit)
    m = {'family': family, 'attempts': n, 'params': params, 'cap': cap, 'jitter': jit}
    if label == 'length':
        confirmed = len(real) != n
        det = f'real generator yields {len(real)} delays for attempts={n}'
    else:
        want = _concrete_closed(family, k, params, jit[k], cap)
        got = real[k] if k < len(real) else None
        confirmed = got is None or abs(got - want) > 1e-6 * max(1.0, abs(want))
        det = f'delay[{k}] = {got!r}, closed form gives {want!r}'
    if confirmed:
        out['verdict'] = 'violated'
        out['failing'].append({'label': f'{family}:{label}', 'detail': det, 'model': m, 'found_by': 'solver', 'confirmed': True})
    else:
        out['verdict'] = 'inconclusive'
        out['reason'] = f'sat assignment does not reproduce beyond rounding noise: {det}'


def replay_formula(model: dict) -> Optional[str]:
    """Used by props.c09.make for --replay of an E2 counterexample; returns a violation label or None."""
    family, n = model['family'], model['attempts']
    real = _real_delays(family, model['params'], n, model['cap'], model['jitter'])
    if len(real) != n:
        return f'{family}:length'
    for k in range(n):
        want = _concrete_closed(family, k, model['params'], model['jitter'][k], model['cap'])
        if abs(real[k] - want) > 1e-6 * max(1.0, abs(want)):
            return f'{family}:delay{k}'
    return None
