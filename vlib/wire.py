"""
S1 wire model, JSON kind alphabets / lazy value builders, JSON-RPC well-formedness predicates.
"""
from __future__ import annotations

import json
from typing import Any, Callable, List, Optional

# ---- kind alphabet ---------------------------------------------------------------------------------
ABSENT = 'absent'
KINDS = ('absent', 'null', 'bool', 'int', 'float', 'str', 'list0', 'list1', 'dict0', 'dict1')
KINDS_PRESENT = KINDS[1:]


class Absent:
    def __repr__(self):
        return 'ABSENT'


ABSENT_VALUE = Absent()


def build(env, kind: str, name: str, strlen: Optional[int] = None) -> Any:
    """Lazily build a JSON value of `kind`; scalar leaves are symbolic (named after `name`)."""
    if kind == 'absent':
        return ABSENT_VALUE
    if kind == 'null':
        return None
    if kind == 'bool':
        return env.bool(name + ':b')
    if kind == 'int':
        return env.int(name + ':i')
    if kind == 'float':
        return env.float(name + ':f')
    if kind == 'str':
        return env.str(name + ':s', strlen)
    if kind == 'list0':
        return []
    if kind == 'list1':
        return [env.int(name + ':l0')]
    if kind == 'list2':
        return [env.int(name + ':l0'), env.int(name + ':l1')]
    if kind == 'dict0':
        return {}
    if kind == 'dict1':
        return {'a': env.int(name + ':da')}
    if kind == 'dict2':
        return {'a': env.int(name + ':da'), 'b': env.int(name + ':db')}
    if kind == 'nest':
        # nesting depth 3 with every scalar kind inside
        return {'a': [env.int(name + ':n0'), {'b': None, 'c': env.str(name + ':n1', strlen), 'd': [env.bool(name + ':n2'), []]}], 'e': {}}
    raise ValueError(kind)


def obj(**members: Any) -> dict:
    """dict from members, skipping ABSENT_VALUE (keys are concrete strings)."""
    return {k: v for k, v in members.items() if v is not ABSENT_VALUE}


# ---- S1: boxed "text" -------------------------------------------------------------------------------
class Box:
    """Stands for the JSON text of `value` on the symbolic side."""
    __slots__ = ('value',)

    def __init__(self, value: Any):
        self.value = value

    def __bool__(self):
        return True

    def __repr__(self):
        return f'Box({self.value!r})'


def normalise(value: Any, default: Optional[Callable[[Any], Any]] = None, depth: int = 0) -> Any:
    """What json.dumps(value, cls=Enc) followed by json.loads would give, on the value level."""
    if depth > 200:
        raise ValueError('Circular reference detected')
    if value is None or isinstance(value, (bool, int, float, str)):
        return value
    if isinstance(value, dict):
        out = {}
        for k, v in value.items():
            if isinstance(k, str):
                pass
            elif k is None:
                k = 'null'
            elif isinstance(k, bool):
                k = 'true' if k else 'false'
            elif isinstance(k, (int, float)):
                k = repr(k)
            else:
                raise TypeError(f'keys must be str, int, float, bool or None, not {type(k).__name__}')
            out[k] = normalise(v, default, depth + 1)
        return out
    if isinstance(value, (list, tuple)):
        return [normalise(v, default, depth + 1) for v in value]
    if default is None:
        raise TypeError(f'Object of type {type(value).__name__} is not JSON serializable')
    return normalise(default(value), default, depth + 1)


UNDECODABLE = '{"jsonrpc": '      # a real text json.loads rejects; the wire model's loader rejects it as well


def _reject_constant(name):
    raise ValueError(f'{name} is not JSON')


class Wire:
    """Either the value-level wire model (symbolic side) or the real json text layer (`env.real`)."""

    def __init__(self, env, loader_fault: Optional[str] = None):
        self.real = bool(env.real)
        self.loader_fault = loader_fault
        self.dumped: List[Any] = []

    # handed to Dispatcher / client constructors
    def loader(self, text, cls=None, **kw):
        if self.real:
            return json.loads(text, cls=cls, **kw)
        if self.loader_fault == 'decode' or (isinstance(text, str) and text == UNDECODABLE):
            raise json.JSONDecodeError('stub', 'x', 0)
        if self.loader_fault == 'value':
            raise ValueError('Exceeds the limit (4300 digits) for integer string conversion')
        if not isinstance(text, Box):
            raise TypeError(f'wire model: loader got {type(text).__name__}')
        return text.value

    def dumper(self, value, cls=None, **kw):
        if self.real:
            return json.dumps(value, cls=cls, **kw)
        default = cls().default if cls is not None else None
        return Box(normalise(value, default))

    # harness side
    def encode(self, value: Any) -> Any:
        return json.dumps(value) if self.real else Box(value)

    def decode(self, text: Any) -> Any:
        if self.real:
            # strict JSON: Python's json would silently accept the non-JSON constants NaN / Infinity / -Infinity
            return json.loads(text, parse_constant=_reject_constant)
        if not isinstance(text, Box):
            raise TypeError(f'wire model: decode got {type(text).__name__}')
        return text.value

    def kwargs(self) -> dict:
        return {} if self.real else {'json_loader': self.loader, 'json_dumper': self.dumper}


# ---- predicates --------------------------------------------------------------------------------------
def is_int(v: Any) -> bool:
    return isinstance(v, int) and not isinstance(v, bool)


def is_number(v: Any) -> bool:
    return isinstance(v, (int, float)) and not isinstance(v, bool)


def wf_error(e: Any) -> Optional[str]:
    if not isinstance(e, dict):
        return 'error-not-object'
    if not set(e.keys()) <= {'code', 'message', 'data'}:
        return 'error-extra-member'
    if 'code' not in e or not is_int(e['code']):
        return 'error-code-not-int'
    if 'message' not in e or not isinstance(e['message'], str):
        return 'error-message-not-str'
    return None


def wf_response_object(r: Any) -> Optional[str]:
    if not isinstance(r, dict):
        return 'response-not-object'
    if r.get('jsonrpc') != '2.0' or not isinstance(r.get('jsonrpc'), str):
        return 'jsonrpc-not-2.0'
    if 'id' not in r:
        return 'id-missing'
    i = r['id']
    if not (i is None or isinstance(i, str) or is_number(i)):
        return 'id-bad-type'
    if isinstance(i, float) and (i != i or i == float('inf') or i == float('-inf')):
        return 'id-not-a-json-number'        # NaN / Infinity have no JSON representation
    if ('result' in r) == ('error' in r):
        return 'result-error-not-exactly-one'
    if 'error' in r:
        why = wf_error(r['error'])
        if why:
            return why
    if not set(r.keys()) <= {'jsonrpc', 'id', 'result', 'error'}:
        return 'response-extra-member'
    return None


def wf_response_document(doc: Any) -> Optional[str]:
    """None if `doc` is a JSON-RPC 2.0 response document, else a reason."""
    if isinstance(doc, list):
        if len(doc) == 0:
            return 'empty-array'
        for r in doc:
            why = wf_response_object(r)
            if why:
                return why
        return None
    return wf_response_object(doc)


def codes_of(doc: Any) -> tuple:
    if isinstance(doc, list):
        return tuple(r['error']['code'] if 'error' in r else 0 for r in doc)
    return (doc['error']['code'] if 'error' in doc else 0,)


def same_json(a: Any, b: Any) -> bool:
    """Equality of JSON values that distinguishes bool from int and int from str (type-exact),
    but not int from float of equal value inside payloads."""
    if isinstance(a, bool) or isinstance(b, bool):
        return isinstance(a, bool) and isinstance(b, bool) and a == b
    if a is None or b is None:
        return a is None and b is None
    if isinstance(a, str) or isinstance(b, str):
        return isinstance(a, str) and isinstance(b, str) and a == b
    if isinstance(a, (int, float)) and isinstance(b, (int, float)):
        return a == b or (a != a and b != b)
    if isinstance(a, (list, tuple)) and isinstance(b, (list, tuple)):
        return len(a) == len(b) and all(same_json(x, y) for x, y in zip(a, b))
    if isinstance(a, dict) and isinstance(b, dict):
        return set(a.keys()) == set(b.keys()) and all(same_json(a[k], b[k]) for k in a)
    return False
