"""
Engine E1: CrossHair's symbolic-execution core driven as an exhaustive path explorer.

The code under test is the real pjrpc code imported from /repo.  A *harness* is a plain function
`run(env)`; it asks `env` for leaves (`env.int('id0')`, `env.str('method', maxlen=2)`, ...), drives
the real API, and raises `Violation(label, detail)` when the oracle fails.  Under `explore()` the
leaves are z3-backed proxy objects; every branch on them is decided by z3 and the whole path tree
is enumerated until CrossHair reports it exhausted.  Under `run_concrete()` the same harness runs
in the plain interpreter on a model (dict leaf-name -> concrete value) -- used for witness
cross-validation and for replaying counterexamples.
"""
from __future__ import annotations

import math
import sys
import time
import traceback
from typing import Any, Callable, Dict, List, Optional

_CH = None  # lazily imported crosshair namespace


class Violation(Exception):
    """Raised by a harness when the oracle fails."""

    def __init__(self, label: str, detail: Any = ''):
        super().__init__(label, detail)
        self.label = label
        self.detail = detail


class Divergence(Exception):
    """Concrete run left the region described by the model (missing leaf / failed assumption)."""


class _Sentinel:
    pass


def _load_crosshair():
    global _CH
    if _CH is not None:
        return _CH
    import z3
    from crosshair import core, core_and_libs  # noqa: F401  (registers library patches)
    from crosshair import statespace, tracers, util

    class NS:
        pass

    ns = NS()
    ns.z3 = z3
    ns.core = core
    ns.statespace = statespace
    ns.tracers = tracers
    ns.util = util
    ns.solver_queries = 0
    ns.solver_time = 0.0

    orig_check = z3.Solver.check

    def counted_check(self, *a, **kw):
        t0 = time.perf_counter()
        try:
            return orig_check(self, *a, **kw)
        finally:
            ns.solver_queries += 1
            ns.solver_time += time.perf_counter() - t0

    z3.Solver.check = counted_check
    if not core._SIMPLE_PROXIES:
        core_and_libs._make_registrations()
    ns.orig_patches = dict(core._PATCH_REGISTRATIONS)
    _CH = ns
    return ns


def configure(format_stub: bool = True, live_lru: bool = False) -> None:
    """Engine configuration (DESIGN S13, S14)."""
    ch = _load_crosshair()
    core = ch.core
    regs = core._PATCH_REGISTRATIONS
    regs.clear()
    regs.update(ch.orig_patches)
    if format_stub:
        from crosshair.core import CrossHairValue
        from crosshair.libimpl.builtinslib import AnySymbolicStr
        inner = regs.get(format)

        def _format(obj, spec=''):
            # S13: formatting anything but a string or a concrete scalar (symbolic numbers, containers, views,
            # exceptions, message objects -- all of which may hold symbolic leaves) would deep-realise it and fork
            # without bound; pjrpc only does this while building exception / log messages.
            with ch.tracers.NoTracing():
                passthrough = isinstance(obj, (str, AnySymbolicStr)) or type(obj) in (int, float, bool, type(None))
                stub = not passthrough
            if stub:
                return '<value>'
            if inner is not None:
                return inner(obj, spec)
            return format(obj, spec)

        regs[format] = _format
    if live_lru:
        import functools
        for key in list(regs):
            if getattr(key, '__qualname__', '') == '_lru_cache_wrapper.__call__' or \
                    key is getattr(functools._lru_cache_wrapper, '__call__', None):
                regs.pop(key, None)


class Env:
    """Leaf provider handed to harnesses."""

    def __init__(self, model: Optional[Dict[str, Any]] = None, real: bool = False):
        self.symbolic = model is None
        self.real = real            # True: use the real json text layer / unstubbed code
        self.model = model or {}
        self.leaves: Dict[str, Any] = {}
        self.reached_count = 0
        self.notes: Dict[str, Any] = {}

    # -- leaves ------------------------------------------------------------------------------
    def _leaf(self, name: str, typ: type) -> Any:
        if name in self.leaves:
            return self.leaves[name]
        if self.symbolic:
            v = _make_symbolic(typ, name)
        else:
            if name not in self.model:
                raise Divergence(f'leaf {name!r} not in model')
            v = _decode_leaf(self.model[name])
            if typ is float and isinstance(v, int) and not isinstance(v, bool):
                v = float(v)
        self.leaves[name] = v
        return v

    def int(self, name: str, lo: Optional[int] = None, hi: Optional[int] = None) -> int:
        v = self._leaf(name, int)
        if lo is not None:
            self.assume(v >= lo)
        if hi is not None:
            self.assume(v <= hi)
        return v

    def str(self, name: str, maxlen: Optional[int] = None) -> str:
        v = self._leaf(name, str)
        if maxlen is not None:
            self.assume(len(v) <= maxlen)
        return v

    def bool(self, name: str) -> bool:
        return self._leaf(name, bool)

    def float(self, name: str) -> float:
        return self._leaf(name, float)

    def choice(self, name: str, n: int) -> int:
        """Symbolic index in range(n)."""
        return self.int(name, 0, n - 1)

    # -- control -----------------------------------------------------------------------------
    def assume(self, cond: Any) -> None:
        if not cond:
            if self.symbolic:
                raise _CH.util.IgnoreAttempt('assumption')
            raise Divergence('assumption failed on concrete run')

    def reached(self) -> None:
        self.reached_count += 1

    def is_symbolic(self, value) -> bool:
        """True iff `value` is a solver-backed proxy (under tracing `type()` / `isinstance` report the emulated type)."""
        if not self.symbolic:
            return False
        with _CH.tracers.NoTracing():
            return isinstance(value, _CH.core.CrossHairValue)

    def untraced(self):
        """Context manager: run a block outside CrossHair's tracing (set-up code that is not the subject)."""
        if self.symbolic:
            return _CH.tracers.NoTracing()
        import contextlib
        return contextlib.nullcontext()


def is_symbolic_value(value) -> bool:
    """True iff `value` is a solver-backed proxy (under tracing `type()` / `isinstance` report the emulated type)."""
    ch = _load_crosshair()
    with ch.tracers.NoTracing():
        return isinstance(value, ch.core.CrossHairValue)


def _make_symbolic(typ: type, name: str) -> Any:
    """
    Build the z3-backed proxy directly.  crosshair.core.proxy_for_type goes through `make_concrete_or_symbolic`,
    which may fork into a "premature realize" branch (a ParallelNode enumerating concrete values): sound, but it turns a
    finite path tree into an endless enumeration, so it is bypassed here.
    """
    ch = _CH
    from crosshair.libimpl import builtinslib as bl
    with ch.tracers.NoTracing():
        space = ch.statespace.context_statespace()
        smt_name = name + space.uniq()
        if typ is int:
            return bl.SymbolicBoundedInt(smt_name, int)
        if typ is bool:
            return bl.SymbolicBool(smt_name, bool)
        if typ is str:
            return bl.LazyIntSymbolicStr(smt_name, str)
        if typ is float:
            return bl.make_float(smt_name, float)
    raise TypeError(typ)


def _encode_leaf(v: Any) -> Any:
    if isinstance(v, float):
        if math.isnan(v) or math.isinf(v):
            return {'__float__': repr(v)}
        return {'__float__': v.hex()}
    return v


def _decode_leaf(v: Any) -> Any:
    if isinstance(v, dict) and '__float__' in v:
        s = v['__float__']
        if s in ('nan', 'inf', '-inf'):
            return float(s)
        return float.fromhex(s)
    return v


class PathRecord:
    __slots__ = ('outcome', 'label', 'detail', 'model', 'observation', 'decisions', 'reached')

    def __init__(self):
        self.outcome = 'ok'      # ok | violation | ignored | unknown | error
        self.label = ''
        self.detail = ''
        self.model: Dict[str, Any] = {}
        self.observation = None
        self.decisions = 0
        self.reached = 0

    def as_dict(self):
        return {k: getattr(self, k) for k in self.__slots__}


class ExploreResult:
    def __init__(self):
        self.paths: List[PathRecord] = []
        self.exhausted = False
        self.reason = ''           # why not conclusive, if so
        self.solver_queries = 0
        self.solver_time = 0.0
        self.wall = 0.0

    @property
    def n_unknown(self):
        return sum(1 for p in self.paths if p.outcome == 'unknown')

    @property
    def conclusive(self):
        return self.exhausted and not self.reason and self.n_unknown == 0 and \
            not any(p.outcome == 'error' for p in self.paths)


def explore(run: Callable[[Env], Any], *, budget_s: float = 60.0, per_path_s: float = 15.0,
            max_paths: int = 50000) -> ExploreResult:
    ch = _load_crosshair()
    core, ss, tr, util = ch.core, ch.statespace, ch.tracers, ch.util
    res = ExploreResult()
    q0, t0s = ch.solver_queries, ch.solver_time
    t_start = time.monotonic()
    search_root = ss.RootNode()
    for _ in range(max_paths):
        now = time.monotonic()
        if now - t_start > budget_s:
            res.reason = f'budget {budget_s}s exhausted'
            break
        itr_start = time.process_time()
        space = ss.StateSpace(execution_deadline=itr_start + per_path_s,
                              model_check_timeout=per_path_s / 2, search_root=search_root)
        rec = PathRecord()
        env = Env()
        status = ss.VerificationStatus.CONFIRMED
        fatal = None
        with core.Patched(), tr.COMPOSITE_TRACER, tr.NoTracing(), ss.StateSpaceContext(space):
            try:
                obs = None
                with core.ExceptionFilter() as ef, tr.ResumedTracing():
                    obs = run(env)
                if ef.ignore:
                    rec.outcome = 'ignored'
                    status = None
                else:
                    exc = ef.user_exc[0] if ef.user_exc else None
                    # detach BEFORE realising anything (DESIGN 1.2 (i))
                    with core.ExceptionFilter() as ef2, tr.ResumedTracing():
                        space.detach_path()
                    if ef2.ignore or ef2.user_exc:
                        rec.outcome = 'ignored'
                        status = None
                    else:
                        rec.model = {k: _encode_leaf(core.deep_realize(v)) for k, v in env.leaves.items()}
                        rec.reached = env.reached_count
                        if exc is None:
                            rec.outcome = 'ok'
                            rec.observation = core.deep_realize(obs)
                        elif isinstance(exc, Violation):
                            rec.outcome = 'violation'
                            rec.label = str(core.deep_realize(exc.label))
                            try:
                                rec.detail = repr(core.deep_realize(exc.detail))[:2000]
                            except Exception as e:  # noqa
                                rec.detail = f'<unrepresentable detail: {type(e).__name__}>'
                        else:
                            rec.outcome = 'error'
                            rec.label = type(exc).__name__
                            tb = ''.join(ef.user_exc[1].format()[-8:]) if ef.user_exc else ''
                            try:
                                rec.detail = (repr(exc)[:500] + '\n' + tb)[-3000:]
                            except BaseException:
                                rec.detail = tb[-3000:]
            except util.IgnoreAttempt:
                rec.outcome = 'ignored'
                status = None
            except util.UnexploredPath as e:
                rec.outcome = 'unknown'
                rec.label = type(e).__name__
                rec.detail = str(e)[:300]
                status = ss.VerificationStatus.UNKNOWN
            except util.NotDeterministic as e:
                fatal = f'NotDeterministic: {e}'
            except util.CrossHairInternal as e:
                fatal = f'CrossHairInternal: {str(e)[:300]}'
            except ch.z3.Z3Exception as e:
                fatal = f'Z3Exception: {str(e)[:300]}'
            if fatal is not None:
                res.reason = fatal
                break
            rec.decisions = len(space.choices_made)
            try:
                _, exhausted = space.bubble_status(ss.CallAnalysis(status))
            except util.CrossHairInternal as e:
                res.reason = f'CrossHairInternal(bubble): {str(e)[:300]}'
                break
        res.paths.append(rec)
        if exhausted:
            res.exhausted = True
            break
    else:
        res.reason = f'max_paths {max_paths} reached'
    res.solver_queries = ch.solver_queries - q0
    res.solver_time = ch.solver_time - t0s
    res.wall = time.monotonic() - t_start
    return res


def run_concrete(run: Callable[[Env], Any], model: Dict[str, Any], real: bool = True) -> PathRecord:
    """Run a harness in the plain interpreter on a model."""
    rec = PathRecord()
    rec.model = model
    env = Env(model=model, real=real)
    try:
        rec.observation = run(env)
        rec.outcome = 'ok'
    except Violation as v:
        rec.outcome = 'violation'
        rec.label = str(v.label)
        rec.detail = repr(v.detail)[:2000]
    except Divergence as d:
        rec.outcome = 'diverged'
        rec.detail = str(d)
    except Exception as e:  # harness error
        rec.outcome = 'error'
        rec.label = type(e).__name__
        rec.detail = (repr(e)[:500] + '\n' + traceback.format_exc())[-3000:]
    rec.reached = env.reached_count
    return rec
