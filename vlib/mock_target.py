"""Patch targets for the C20 harness (PjRpcMocker patches `<module>.<Class>._request`)."""
ORIGINAL_CALLS = []


class Client:
    def __init__(self, endpoint):
        self._endpoint = endpoint

    def _request(self, request_text, is_notification=False, **kwargs):
        ORIGINAL_CALLS.append((self._endpoint, request_text, is_notification))
        return 'ORIGINAL-TRANSPORT'


class AsyncClient:
    def __init__(self, endpoint):
        self._endpoint = endpoint

    async def _request(self, request_text, is_notification=False, **kwargs):
        ORIGINAL_CALLS.append((self._endpoint, request_text, is_notification))
        return 'ORIGINAL-TRANSPORT'
