"""
Server-side rig shared by C01/C02/C03/C11/C12: a real Dispatcher / AsyncDispatcher over the wire model with
generated recorder methods (S8), plus lazy request-document builders over the element alphabet.
"""
from __future__ import annotations

import asyncio
from typing import Any, Dict, List, Optional

from vlib.wire import ABSENT_VALUE, Wire, build, obj

MARKER = 'S3CR3T-marker-7f3a'


class Boom(Exception):
    pass


def _lib_validation_error(marker):
    # the library's own validators.ValidationError raised BY THE METHOD BODY, wrapping an object without a JSON form
    from pjrpc.server import validators
    return validators.ValidationError(ValueError(marker))


def _json_decode_error(marker):
    import json
    return json.JSONDecodeError(marker, 'doc', 0)


EXC_TYPES = {'ValueError': ValueError, 'KeyError': KeyError, 'TypeError': TypeError, 'AssertionError': AssertionError,
             'RuntimeError': RuntimeError, 'Boom': Boom, 'LibValidationError': _lib_validation_error,
             'JSONDecodeError': _json_decode_error}


def run_coro(coro):
    loop = asyncio.new_event_loop()
    try:
        return loop.run_until_complete(coro)
    finally:
        loop.close()


class Rig:
    """One dispatcher + its execution log.  `spec` describes the behaviour leaves (lazily created from env)."""

    def __init__(self, env, kind: str = 'sync', *, wire: Optional[Wire] = None, max_batch_size: Any = None,
                 perr_data: str = 'absent', exc: str = 'ValueError', plain_on_async: bool = False,
                 middlewares=(), error_handlers=None, tag: str = '', extra_kwargs: Optional[dict] = None,
                 suspend: bool = True):
        import pjrpc.server
        self.env = env
        self.kind = kind
        self.wire = wire or Wire(env)
        self.log: List[Any] = []
        self._co_calls = 0
        self.suspend = suspend
        self.perr_data = perr_data
        self.exc = exc
        kw: Dict[str, Any] = dict(self.wire.kwargs())
        if max_batch_size is not None:
            kw['max_batch_size'] = max_batch_size
        if middlewares:
            kw['middlewares'] = middlewares
        if error_handlers is not None:
            kw['error_handlers'] = error_handlers
        if extra_kwargs:
            kw.update(extra_kwargs)
        cls = pjrpc.server.Dispatcher if kind == 'sync' else pjrpc.server.AsyncDispatcher
        self.d = cls(**kw)
        self._register(as_coroutines=(kind == 'async' and not plain_on_async))

    # -- behaviours -------------------------------------------------------------------------------
    def _perr(self):
        import pjrpc
        env = self.env
        code = env.int('perr.code')
        msg = env.str('perr.msg', 3)
        if self.perr_data == 'absent':
            return pjrpc.exc.JsonRpcError(code, msg)
        return pjrpc.exc.JsonRpcError(code, msg, build(env, self.perr_data, 'perr.data', 2))

    def _register(self, as_coroutines: bool):
        log = self.log
        rig = self

        # fixed signatures on purpose: variadic parameters are the subject of C04, not of this rig
        def echo(x):
            log.append(['echo', x])
            return [x]

        def two(a, b=5):
            log.append(['two', a, b])
            return [a, b]

        def perr(k):
            log.append(['perr', k])
            raise rig._perr()

        def boom():
            log.append(['boom'])
            raise EXC_TYPES[rig.exc](MARKER)

        import pjrpc.server as _srv

        class VerifBadView(_srv.ViewMixin):
            """A class-based view whose constructor fails: the failure surfaces outside the method call (-32603)."""

            def __init__(self, *a):
                log.append(['vfail-ctor'])
                raise RuntimeError(MARKER)

            def vfail(self):
                log.append(['vfail'])
                return 1

        self.d.view(VerifBadView)
        fns = {'echo': echo, 'two': two, 'perr': perr, 'boom': boom}
        for name, fn in fns.items():
            if as_coroutines:
                fn = _as_coro(fn, self if self.suspend else None)
            self.d.add(fn, name=name)

    # -- driving ----------------------------------------------------------------------------------
    def dispatch_text(self, text, context=None):
        self._co_calls = 0
        if self.kind == 'sync':
            return self.d.dispatch(text, context)
        return run_coro(self.d.dispatch(text, context))

    def dispatch_doc(self, doc, context=None):
        """Returns None | (decoded response document, codes tuple)."""
        out = self.dispatch_text(self.wire.encode(doc), context)
        if out is None:
            return None
        text, codes = out
        return self.wire.decode(text), codes


def _as_coro(fn, rig=None):
    import functools
    import inspect

    @functools.wraps(fn)
    async def co(*args, **kwargs):
        if rig is not None:
            # adversarial but fixed schedule: the n-th call of a dispatch suspends (3 - n) times, so EARLIER batch elements
            # finish LATER than later ones (completion order != request order)
            # (the body runs first, so the execution log keeps request order; only COMPLETION order is reversed)
            n = rig._co_calls
            rig._co_calls += 1
            try:
                return fn(*args, **kwargs)
            finally:
                for _ in range(max(0, 3 - n)):
                    await asyncio.sleep(0)
        return fn(*args, **kwargs)
    co.__signature__ = inspect.signature(fn)
    return co


# ---- element alphabet (C02 / C03 / C11 / C10) ---------------------------------------------------------
CALL_BEHAVIOURS = ('ok', 'unknown', 'nobind', 'perr', 'boom')
ELEMENTS = tuple(f'{c}:{b}' for c in ('call', 'notif') for b in CALL_BEHAVIOURS) + ('nonobj', 'nomethod', 'badparams')


def element(env, kind: str, i: int, idtype: str = 'i', strlen: int = 2):
    """Returns (document, info) where info = dict(valid, idtag, id, behaviour)."""
    if kind == 'nonobj':
        return env.int(f'x{i}'), {'valid': False, 'idtag': 'n', 'id': None, 'b': None}
    if kind == 'nomethod':
        return {'jsonrpc': '2.0', 'id': env.int(f'id{i}')}, {'valid': False, 'idtag': 'n', 'id': None, 'b': None}
    if kind == 'badparams':         # params present but neither array nor object (any integer, 0 included): not a valid request
        return ({'jsonrpc': '2.0', 'id': env.int(f'id{i}'), 'method': 'echo', 'params': env.int(f'bp{i}')},
                {'valid': False, 'idtag': 'n', 'id': None, 'b': None})
    c, b = kind.split(':')
    doc: Dict[str, Any] = {'jsonrpc': '2.0'}
    if b == 'ok':
        doc['method'] = 'echo'
        doc['params'] = [env.int(f'p{i}')]
    elif b == 'unknown':
        doc['method'] = 'nosuch'
        doc['params'] = [env.int(f'p{i}')]
    elif b == 'nobind':
        doc['method'] = 'two'
        doc['params'] = {'zz': env.int(f'p{i}')}
    elif b == 'perr':
        doc['method'] = 'perr'
        doc['params'] = {'k': env.int(f'p{i}')}
    elif b == 'boom':
        doc['method'] = 'boom'
    info = {'valid': True, 'b': b}
    if c == 'call':
        if isinstance(idtype, (list, tuple)):           # ['const', value]: a concrete id (e.g. 1 next to "1")
            doc['id'] = idtype[1]
            info['idtag'] = 's' if isinstance(idtype[1], str) else 'i'
        elif idtype == 'i':
            doc['id'] = env.int(f'id{i}')
            info['idtag'] = 'i'
        else:
            doc['id'] = env.str(f'sid{i}', strlen)
            info['idtag'] = 's'
        info['id'] = doc['id']
    else:
        info['idtag'] = 'n'
        info['id'] = None
    return doc, info


def has_duplicate_ids(infos) -> bool:
    seen = []
    for inf in infos:
        if inf['idtag'] == 'n':
            continue
        for t, v in seen:
            if t == inf['idtag'] and v == inf['id']:
                return True
        seen.append((inf['idtag'], inf['id']))
    return False


def expected_log_entry(doc) -> Optional[list]:
    """What an accepted element of the alphabet must append to the execution log (None: must not execute)."""
    m = doc.get('method')
    if m == 'echo':
        return ['echo', doc['params'][0]]
    if m == 'perr':
        return ['perr', doc['params']['k']]
    if m == 'boom':
        return ['boom']
    return None
